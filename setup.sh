#!/bin/bash
# Run once after a fresh restore, offline: builds the orchestrator and warms the
# build cache for the simulation binaries (the checks rebuild them from /repo's
# working tree on every invocation), then runs the harness self-tests.
cd "$(dirname "$0")" || exit 2
export GOFLAGS=-mod=mod GOPROXY=off GOSUMDB=off GOTOOLCHAIN=local
GO=go1.26.8
command -v $GO >/dev/null 2>&1 || GO=/opt/veriftools/go1.26.8/bin/go
mkdir -p bin work evidence replays
$GO build -o bin/instrument ./cmd/instrument && $GO build -o bin/verifctl ./cmd/verifctl || exit 2
$GO test -tags verif -vet=off -c -o work/warm.test ./sim/ || exit 2
rm -f work/warm.test
if [ -z "$VERIF_SKIP_SELFTEST" ]; then
  bin/verifctl selftest || exit 2
fi
echo "setup ok"
