package sim

import (
	"context"
	"errors"
	"fmt"
	"io"
	"os"
	"strings"
	"testing"
	"time"

	"github.com/apex/log"
	"github.com/apex/log/handlers/discard"
	"github.com/taskctl/taskctl/pkg/task"
	"github.com/taskctl/taskctl/pkg/variables"

	"github.com/Flowpack/prunner/taskctl"
)

// Stub conformance (DESIGN §2.5, §7.3): the same micro scenarios through the real
// taskctl.TaskRunner and through the stub; the sequence of task-change callbacks,
// the task fields at each callback and the class of the returned error must agree.

type confObs struct {
	calls []string
	ret   string
}

func describeTask(t *task.Task) string {
	e := "-"
	switch {
	case t.Error == nil:
	case errors.Is(t.Error, context.Canceled):
		e = "canceled"
	default:
		e = "error"
	}
	return fmt.Sprintf("start=%v end=%v exit=%d errored=%v err=%s skipped=%v", !t.Start.IsZero(), !t.End.IsZero(), t.ExitCode, t.Errored, e, t.Skipped)
}

func errClass(err error) string {
	switch {
	case err == nil:
		return "nil"
	case errors.Is(err, context.Canceled):
		return "canceled"
	}
	return "error"
}

func newConfTask(name, cmd string, allow bool) *task.Task {
	t := task.FromCommands(cmd)
	t.Name = name
	t.AllowFailure = allow
	t.Variables = variables.FromMap(map[string]string{taskctl.JobIDVariableName: mkID(1).String()})
	return t
}

type confCase struct {
	name      string
	cmd       string
	allow     bool
	cancelPre bool // cancel before Run
	cancelMid bool // cancel while the command runs
	outcome   int  // what the stub is told when its task.exec park is released
}

func TestStubConformance(t *testing.T) {
	if os.Getenv("VERIF_CONFORMANCE") == "" {
		t.Skip("VERIF_CONFORMANCE not set")
	}
	log.SetHandler(discard.Default)
	cases := []confCase{
		{name: "success", cmd: "true", outcome: outOK},
		{name: "failure", cmd: "exit 3", outcome: outFail},
		{name: "allowed failure", cmd: "exit 3", allow: true, outcome: outFail},
		{name: "canceled before start", cmd: "true", cancelPre: true, outcome: outOK},
		{name: "canceled while running", cmd: "sleep 20", cancelMid: true, outcome: outOK},
		{name: "exits 0 on interrupt", cmd: `sh -c 'trap "exit 0" INT; sleep 20 & wait'`, cancelMid: true, outcome: outExit0},
	}
	for _, c := range cases {
		real := runReal(t, c)
		stubbed := runStub(t, c)
		if strings.Join(real.calls, "\n") != strings.Join(stubbed.calls, "\n") || real.ret != stubbed.ret {
			t.Errorf("case %q: the stub does not behave like taskctl.TaskRunner\nreal : %v -> %s\nstub : %v -> %s", c.name, real.calls, real.ret, stubbed.calls, stubbed.ret)
		} else {
			fmt.Printf("conformance %-26s ok: %d callbacks, returns %s\n", c.name, len(real.calls), real.ret)
		}
	}
}

func runReal(t *testing.T, c confCase) confObs {
	dir := t.TempDir()
	out, _ := taskctl.NewOutputStore(dir)
	r, _ := taskctl.NewTaskRunner(out, taskctl.WithKillTimeout(time.Second))
	r.Stdout, r.Stderr = io.Discard, io.Discard
	var obs confObs
	r.SetOnTaskChange(func(t *task.Task) { obs.calls = append(obs.calls, describeTask(t)) })
	tk := newConfTask("a", c.cmd, c.allow)
	if c.cancelPre {
		r.Cancel()
	}
	done := make(chan error, 1)
	go func() { done <- r.Run(tk) }()
	if c.cancelMid {
		time.Sleep(300 * time.Millisecond)
		r.Cancel()
	}
	obs.ret = errClass(<-done)
	return obs
}

func runStub(t *testing.T, c confCase) confObs {
	core := newCore()
	w := &World{id: 1, run: &Run{sc: &Scenario{}}}
	s := &stub{world: w, core: core, job: "j1"}
	s.ctx, s.cancelFn = context.WithCancel(context.Background())
	var obs confObs
	s.SetOnTaskChange(func(t *task.Task) { obs.calls = append(obs.calls, describeTask(t)) })
	tk := newConfTask("a", c.cmd, c.allow)
	if c.cancelPre {
		go s.Cancel()
		p := <-core.arrivals // runner.cancel
		p.ch <- relGo
		time.Sleep(20 * time.Millisecond)
	}
	done := make(chan error, 1)
	go func() { done <- s.Run(tk) }()
	for {
		select {
		case p := <-core.arrivals:
			point, _, _, _, _, _ := p.rd()
			switch point {
			case "task.exec":
				if c.cancelMid {
					go s.Cancel()
					pc := <-core.arrivals
					pc.ch <- relGo
					time.Sleep(20 * time.Millisecond)
				}
				p.ch <- c.outcome
			default:
				p.ch <- relGo
			}
		case err := <-done:
			obs.ret = errClass(err)
			return obs
		}
	}
}
