package sim

import (
	"runtime"
	"unsafe"
)

// Fast goroutine ids. runtime.Stack costs a traceback per call, which was a third
// of the simulator's CPU time. The id is read straight out of the runtime's g
// structure instead; the offset is not assumed but *searched* at start-up and
// verified against the slow method on several goroutines. If the search fails
// the slow method stays in use.

func getg() uintptr

var goidOffset uintptr // 0 = unknown

func goidSlow() uint64 {
	var buf [40]byte
	n := runtime.Stack(buf[:], false)
	var id uint64
	for i := len("goroutine "); i < n; i++ {
		c := buf[i]
		if c < '0' || c > '9' {
			break
		}
		id = id*10 + uint64(c-'0')
	}
	return id
}

func init() { findGoidOffset() }

//go:nocheckptr
func findGoidOffset() {
	type probe struct {
		g  uintptr
		id uint64
	}
	var ps []probe
	ch := make(chan probe)
	hold := make(chan struct{}) // the probed goroutines must stay alive: a dead g is reused
	defer close(hold)
	for i := 0; i < 4; i++ {
		go func() { ch <- probe{getg(), goidSlow()}; <-hold }()
		ps = append(ps, <-ch)
	}
	ps = append(ps, probe{getg(), goidSlow()})
	for off := uintptr(8); off < 512; off += 8 {
		ok := true
		for _, p := range ps {
			if p.g == 0 || *(*uint64)(unsafe.Pointer(p.g + off)) != p.id {
				ok = false
				break
			}
		}
		if ok {
			goidOffset = off
			return
		}
	}
}

// goid returns the id of the calling goroutine.
//
//go:nocheckptr
func goid() uint64 {
	if goidOffset != 0 {
		return *(*uint64)(unsafe.Pointer(getg() + goidOffset))
	}
	return goidSlow()
}
