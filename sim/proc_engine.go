package sim

import (
	"context"
	"crypto/sha256"
	"encoding/hex"
	"encoding/json"
	"fmt"
	"io"
	"math/rand/v2"
	"os"
	"strings"
	"syscall"
	"time"

	"github.com/taskctl/taskctl/pkg/variables"

	"github.com/Flowpack/prunner"
	"github.com/Flowpack/prunner/definition"
	"github.com/Flowpack/prunner/taskctl"
	"github.com/Flowpack/prunner/verifhook"
)

// Engine C, real-clock part (DESIGN §5 C20): real PipelineRunner, real
// TaskRunner, real process trees, real signals, real time. Nothing here is
// simulated except the generation of the scenario from the seed; a failing
// scenario is re-run and only reported if it fails every time.

type ProcScenario struct {
	Jobs           []ProcJob `json:"jobs"`
	KillTimeoutMs  int       `json:"kill_timeout_ms"`
	ForcedShutdown bool      `json:"forced_shutdown,omitempty"` // end the marked jobs by a forced shutdown instead of CancelJob
}

type ProcJob struct {
	Script        []string `json:"script"`
	Shape         string   `json:"shape"` // human readable description of the process tree
	Cancel        bool     `json:"cancel"`
	CancelAfterMs int      `json:"cancel_after_ms"`
	Procs         int      `json:"expected_processes"` // how many marked processes the script is expected to start (lower bound)
}

// process-tree grammar
func genProcJob(g gen) ProcJob {
	leaf := "sleep 30"
	shape := []string{}
	detached := g.p(350)
	if detached {
		leaf = "sleep 30 >/dev/null 2>&1 </dev/null"
		shape = append(shape, "detached-stdio")
	}
	ignore := g.p(350)
	body := leaf
	if ignore {
		body = `trap "" INT; ` + strings.Replace(leaf, "sleep", "exec sleep", 1)
		shape = append(shape, "ignore-int")
	}
	j := ProcJob{Procs: 1}
	switch g.n(10) {
	case 8: // a line whose shell leaves a background process behind and exits; the cancel comes during the next line
		j.Script = []string{fmt.Sprintf("sh -c '(%s) &'", strings.Replace(body, "sleep 30", "sleep 30 >/dev/null 2>&1 </dev/null", 1)), "sleep 30"}
		if detached {
			j.Script[0] = fmt.Sprintf("sh -c '(%s) &'", body)
		}
		shape = append(shape, "orphan-of-finished-line", "next-command-running")
		j.Procs = 2
	case 9: // the whole task ends at once and leaves a background process behind: the cancel can only land in the
		// gap between the end of the last task and the completion of the job
		j.Script = []string{fmt.Sprintf("sh -c '(%s) &'", strings.Replace(body, "sleep 30", "sleep 30 >/dev/null 2>&1 </dev/null", 1))}
		if detached {
			j.Script[0] = fmt.Sprintf("sh -c '(%s) &'", body)
		}
		shape = append(shape, "orphan-of-finished-task", "cancel-in-completion-gap")
		j.Procs = 1
	case 0: // plain foreground command of the task
		if ignore {
			j.Script = []string{fmt.Sprintf("sh -c '%s'", body)}
		} else {
			j.Script = []string{leaf}
		}
		shape = append(shape, "foreground")
	case 1: // background child of a shell that waits
		j.Script = []string{fmt.Sprintf("sh -c '(%s) & wait'", body)}
		shape = append(shape, "background", "sh-wait")
		j.Procs = 2
	case 2: // pipeline
		j.Script = []string{fmt.Sprintf("sh -c '(%s) | cat'", body)}
		shape = append(shape, "pipe")
		j.Procs = 2
	case 3: // two levels of shells
		j.Script = []string{fmt.Sprintf(`sh -c 'sh -c "sleep 30 & wait" & (%s) & wait'`, body)}
		shape = append(shape, "background", "nested-shells")
		j.Procs = 3
	case 4: // background inside the interpreter, then a foreground command
		j.Script = []string{fmt.Sprintf("sh -c '%s' &\nsleep 30", body)}
		shape = append(shape, "interpreter-background")
		j.Procs = 2
	case 5: // several commands: the cancel may fall between them
		j.Script = []string{"true", fmt.Sprintf("sh -c '(%s) & wait'", body), "sleep 30"}
		shape = append(shape, "background", "several-commands")
		j.Procs = 2
	case 6: // subshell group with a sibling that exits on its own
		j.Script = []string{fmt.Sprintf("sh -c '(%s) & sleep 0.2; wait'", body)}
		shape = append(shape, "background", "sibling-exits")
		j.Procs = 2
	case 7: // a line that starts a background process and ends, then the task goes on
		j.Script = []string{fmt.Sprintf("sh -c '%s' &", body), "sleep 30"}
		shape = append(shape, "background-line-then-next-command")
		j.Procs = 2
	}
	j.Shape = strings.Join(shape, "+")
	return j
}

func generateProc(seed uint64) *Scenario {
	g := gen{rand.New(rand.NewPCG(seed, 0x50524f43))}
	ps := &ProcScenario{KillTimeoutMs: g.oneOf(1000, 1000, 300, 0)}
	n := 1 + g.n(3)
	for i := 0; i < n; i++ {
		j := genProcJob(g)
		j.Cancel = i == 0 || g.p(500)
		j.CancelAfterMs = g.oneOf(0, 5, 50, 150, 300)
		if strings.Contains(j.Shape, "cancel-in-completion-gap") {
			j.CancelAfterMs = g.oneOf(0, 5, 20) // the job completes within one scheduler poll (50 ms) of its task's end
		}
		ps.Jobs = append(ps.Jobs, j)
	}
	ps.ForcedShutdown = g.p(150)
	return &Scenario{Profile: "C20", Proc: ps, Cfg: RunConfig{MaxSteps: 10}}
}

type markedProc struct {
	Pid    int
	State  string
	Cmd    string
	SigInt string // "ignores-SIGINT" if SIGINT is in the process's SigIgn mask (explicitly, or as a background command of a non-interactive shell), else "handles-SIGINT"
}

// ignoresSIGINT reads the SigIgn mask of /proc/<pid>/status.
func ignoresSIGINT(pid string) string {
	st, err := os.ReadFile("/proc/" + pid + "/status")
	if err != nil {
		return "handles-SIGINT"
	}
	for _, l := range strings.Split(string(st), "\n") {
		if strings.HasPrefix(l, "SigIgn:") {
			var mask uint64
			fmt.Sscanf(strings.TrimSpace(strings.TrimPrefix(l, "SigIgn:")), "%x", &mask)
			if mask&(1<<(uint(syscall.SIGINT)-1)) != 0 {
				return "ignores-SIGINT"
			}
		}
	}
	return "handles-SIGINT"
}

func allIgnoreSIGINT(ps []markedProc) string {
	n := 0
	for _, p := range ps {
		if p.SigInt == "ignores-SIGINT" {
			n++
		}
	}
	if n == len(ps) {
		return "all of them ignore SIGINT"
	}
	return fmt.Sprintf("%d of them do not ignore SIGINT", len(ps)-n)
}

// markedProcs lists the live (non-zombie) processes whose environment carries the mark.
func markedProcs(mark string) []markedProc {
	var res []markedProc
	ents, _ := os.ReadDir("/proc")
	needle := "VERIF_MARK=" + mark + "\x00"
	for _, e := range ents {
		n := e.Name()
		if n[0] < '0' || n[0] > '9' {
			continue
		}
		env, err := os.ReadFile("/proc/" + n + "/environ")
		if err != nil || !strings.Contains(string(env)+"\x00", needle) {
			continue
		}
		stat, _ := os.ReadFile("/proc/" + n + "/stat")
		state := "?"
		if i := strings.LastIndex(string(stat), ") "); i >= 0 && len(stat) > i+2 {
			state = string(stat[i+2 : i+3])
		}
		if state == "Z" || state == "X" {
			continue
		}
		cmd, _ := os.ReadFile("/proc/" + n + "/cmdline")
		var pid int
		fmt.Sscan(n, &pid)
		res = append(res, markedProc{pid, state, strings.TrimSpace(strings.ReplaceAll(string(cmd), "\x00", " ")), ignoresSIGINT(n)})
	}
	return res
}

type procRun struct {
	sc    *Scenario
	ps    *ProcScenario
	viol  []Violation
	stats Stats
	trace []string
}

func (r *procRun) logf(format string, a ...interface{}) {
	r.trace = append(r.trace, fmt.Sprintf(format, a...))
}

// once executes the scenario one time and returns the violations it saw.
func (r *procRun) once(attempt int) []Violation {
	var viol []Violation
	violate := func(rule, format string, a ...interface{}) {
		viol = append(viol, Violation{"C20", rule, fmt.Sprintf(format, a...), attempt})
	}
	verifhook.Handler, verifhook.SkipHandler, verifhook.FaultHandler = nil, nil, nil
	runID := fmt.Sprintf("%d-%d-%d", os.Getpid(), time.Now().UnixNano(), attempt)
	dir, err := os.MkdirTemp("", "verif-proc-")
	if err != nil {
		return nil
	}
	defer os.RemoveAll(dir)
	defs := &definition.PipelinesDef{Pipelines: map[string]definition.PipelineDef{}}
	marks := make([]string, len(r.ps.Jobs))
	for i, j := range r.ps.Jobs {
		marks[i] = fmt.Sprintf("%s/j%d", runID, i)
		defs.Pipelines[fmt.Sprintf("p%d", i)] = definition.PipelineDef{Concurrency: 1, Env: map[string]string{"VERIF_MARK": marks[i]},
			Tasks: map[string]definition.TaskDef{"a": {Script: j.Script}}}
	}
	outStore, _ := taskctl.NewOutputStore(dir + "/logs")
	ctx, cancel := context.WithCancel(context.Background())
	defer cancel()
	killTimeout := time.Duration(r.ps.KillTimeoutMs) * time.Millisecond
	runner, err := prunner.NewPipelineRunner(ctx, defs, func(j *prunner.PipelineJob) taskctl.Runner {
		tr, _ := taskctl.NewTaskRunner(outStore, taskctl.WithEnv(variables.FromMap(j.Env)), taskctl.WithKillTimeout(killTimeout))
		tr.Stdout, tr.Stderr = io.Discard, io.Discard
		return tr
	}, nil, outStore)
	if err != nil {
		return nil
	}
	defer func() {
		// never leave anything behind, whatever happened
		for _, m := range marks {
			for _, p := range markedProcs(m) {
				_ = syscall.Kill(p.Pid, syscall.SIGKILL)
			}
		}
	}()
	jobs := make([]*prunner.PipelineJob, len(r.ps.Jobs))
	for i := range r.ps.Jobs {
		j, err := runner.ScheduleAsync(fmt.Sprintf("p%d", i), prunner.ScheduleOpts{})
		if err != nil {
			return nil
		}
		jobs[i] = j
	}
	// wait until the trees are up (bounded)
	for i, j := range r.ps.Jobs {
		t0 := time.Now()
		for len(markedProcs(marks[i])) < j.Procs && time.Since(t0) < 1500*time.Millisecond {
			time.Sleep(5 * time.Millisecond)
		}
	}
	isDone := func(i int) (done, canceled bool) {
		_ = runner.ReadJob(jobs[i].ID, func(j *prunner.PipelineJob) { done, canceled = j.Completed, j.Canceled })
		return
	}
	var cancelAt [8]time.Time
	var cancelRefused [8]bool
	if r.ps.ForcedShutdown {
		for i := range r.ps.Jobs {
			cancelAt[i] = time.Now()
		}
		sctx, scancel := context.WithTimeout(context.Background(), time.Millisecond)
		go func() { _ = runner.Shutdown(sctx); scancel() }()
		r.stats.Faults["forced_shutdown"]++
	} else {
		for i, j := range r.ps.Jobs {
			if !j.Cancel {
				continue
			}
			time.Sleep(time.Duration(j.CancelAfterMs) * time.Millisecond)
			cancelAt[i] = time.Now()
			if err := runner.CancelJob(jobs[i].ID); err != nil {
				r.logf("cancel of job %d refused: %v", i, err)
				cancelRefused[i] = true
			}
			r.stats.Faults["cancel_of_running_process_tree"]++
		}
	}
	for i, j := range r.ps.Jobs {
		if !j.Cancel && !r.ps.ForcedShutdown {
			continue
		}
		if cancelRefused[i] {
			// the job had ended by itself before the cancel arrived: it is not a canceled job, the statement does not apply
			r.stats.Probes["cancel_came_too_late"]++
			continue
		}
		// until the job is reported finished
		limit := killTimeout + 2*time.Second
		var done bool
		for !done && time.Since(cancelAt[i]) < limit+3*time.Second {
			done, _ = isDone(i)
			if !done {
				time.Sleep(2 * time.Millisecond)
			}
		}
		took := time.Since(cancelAt[i])
		if !done {
			violate("r2", "job %d (shape: %s, script %q) is not reported finished %v after its cancel (kill timeout %v)", i, j.Shape, j.Script, took.Round(time.Millisecond), killTimeout)
			continue
		}
		if took > limit {
			violate("r2", "job %d (shape: %s) was reported finished %v after its cancel, more than the kill timeout %v plus 2s", i, j.Shape, took.Round(time.Millisecond), killTimeout)
		}
		// r1: nothing of it is alive any more (250ms grace for the kernel to tear processes down)
		alive := markedProcs(marks[i])
		t0 := time.Now()
		for len(alive) > 0 && time.Since(t0) < 250*time.Millisecond {
			time.Sleep(10 * time.Millisecond)
			alive = markedProcs(marks[i])
		}
		if len(alive) > 0 {
			// does the SIGKILL escalation at least get them, or are they never killed?
			for time.Since(cancelAt[i]) < killTimeout+750*time.Millisecond {
				time.Sleep(20 * time.Millisecond)
			}
			if late := markedProcs(marks[i]); len(late) > 0 {
				violate("r1b", "job %d (shape: %s) was reported finished %v after its cancel, and %d of its processes are still alive %v after the cancel, well past the kill timeout of %v: %v (script %q)", i, j.Shape, took.Round(time.Millisecond), len(late), time.Since(cancelAt[i]).Round(time.Millisecond), killTimeout, late, j.Script)
			} else {
				violate("r1a", "job %d (shape: %s) was reported finished %v after its cancel, but %d of its processes were still alive 250ms after that report, %s (they were gone once the kill timeout of %v had passed): %v (script %q)", i, j.Shape, took.Round(time.Millisecond), len(alive), allIgnoreSIGINT(alive), killTimeout, alive, j.Script)
			}
		}
		r.logf("job %d shape=%s finished %v after cancel, survivors=%d", i, j.Shape, took.Round(time.Millisecond), len(alive))
		r.stats.Probes["canceled_tree_checked"]++
		r.stats.Probes["shape:"+j.Shape]++
	}
	// r3: processes of jobs that were not canceled are untouched
	if !r.ps.ForcedShutdown {
		for i, j := range r.ps.Jobs {
			if j.Cancel {
				continue
			}
			if done, _ := isDone(i); done && !strings.Contains(j.Shape, "orphan-of-finished-task") {
				violate("r3", "job %d was not canceled but is reported finished", i)
			} else if n := len(markedProcs(marks[i])); n == 0 {
				violate("r3", "job %d was not canceled but none of its processes is alive", i)
			}
			r.stats.Probes["bystander_checked"]++
			_ = runner.CancelJob(jobs[i].ID)
		}
	}
	// let everything end
	t0 := time.Now()
	for time.Since(t0) < killTimeout+2*time.Second {
		all := true
		for i := range jobs {
			if d, _ := isDone(i); !d {
				all = false
			}
		}
		if all {
			break
		}
		time.Sleep(10 * time.Millisecond)
	}
	return viol
}

func (r *procRun) execute() {
	Heartbeat.Add(1)
	first := r.once(0)
	r.stats.Steps = len(r.ps.Jobs)
	r.stats.Started = len(r.ps.Jobs)
	if len(first) == 0 {
		return
	}
	// a failure on a real kernel under load may be bad luck: it counts only if it fails again, twice
	for a := 1; a <= 2; a++ {
		Heartbeat.Add(1)
		again := r.once(a)
		ok := false
		for _, v := range again {
			if v.Rule == first[0].Rule {
				ok = true
			}
		}
		if !ok {
			r.stats.Inconclusive = append(r.stats.Inconclusive, "a violation of "+first[0].Rule+" did not repeat")
			return
		}
	}
	r.viol = first[:1]
}

func procHash(sc *Scenario, viol []Violation) string {
	b, _ := json.Marshal(sc.Proc)
	rule := ""
	if len(viol) > 0 {
		rule = viol[0].Rule
	}
	h := sha256.Sum256(append(b, rule...))
	return hex.EncodeToString(h[:8])
}
