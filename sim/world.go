package sim

import (
	"sort"
	"math/rand/v2"
	"reflect"
	"context"
	"encoding/binary"
	"errors"
	"fmt"
	"io"
	"net/http"
	"strconv"
	"strings"
	"sync"
	"time"

	"github.com/go-chi/jwtauth/v5"
	"github.com/gofrs/uuid"
	"github.com/taskctl/taskctl/pkg/scheduler"
	"github.com/taskctl/taskctl/pkg/task"

	"github.com/Flowpack/prunner"
	"github.com/Flowpack/prunner/definition"
	"github.com/Flowpack/prunner/server"
	"github.com/Flowpack/prunner/store"
	"github.com/Flowpack/prunner/taskctl"
)

// ---------------------------------------------------------------------------
// deterministic job ids: the acceptance counter is encoded in the id

type detGen struct {
	n        uint64
	failNext bool
	uuid.Generator
}

func mkID(n uint64) uuid.UUID {
	var u uuid.UUID
	binary.BigEndian.PutUint64(u[8:], n)
	u.SetVersion(uuid.V4)
	u.SetVariant(uuid.VariantRFC4122)
	return u
}

var errUUID = errors.New("simulated entropy failure")

//go:norace
func (g *detGen) NewV4() (uuid.UUID, error) {
	if g.failNext {
		g.failNext = false
		return uuid.UUID{}, errUUID
	}
	g.n++
	return mkID(g.n), nil
}

func jobNum(u uuid.UUID) uint64 {
	var b [8]byte
	copy(b[:], u[8:])
	b[0] &= 0x3f
	return binary.BigEndian.Uint64(b[:])
}

func jobName(u uuid.UUID) string { return "j" + strconv.FormatUint(jobNum(u), 10) }

func jobNameFromVars(v interface{ Get(string) interface{} }) string {
	s, _ := v.Get(taskctl.JobIDVariableName).(string)
	id, err := uuid.FromString(s)
	if err != nil {
		return "j?"
	}
	return jobName(id)
}

// ---------------------------------------------------------------------------
// World: one PipelineRunner and everything it spawned ("one process")

type World struct {
	id     int
	run    *Run
	r      *prunner.PipelineRunner
	ctx    context.Context
	cancel context.CancelFunc
	defs   DefSet // what the harness installed last (by reload steps)
	defsIx int
	store  store.DataStore
	mem    *recStore
	out    taskctl.OutputStore
	srv    http.Handler
	routes []routeInfo
	dir    string

	dead             bool
	shutdownBegun    int // step at which Shutdown.begin was released (0 = not)
	shutdownReturned int
	failNextSave     bool
	signalled        bool // the runner context was cancelled (the binary received SIGINT/SIGTERM): the persist loop stops
	failRemove       int // k > 0: the k-th log removal of the save being released fails

	stubsMu   sync.Mutex
	stubs     map[string][]*stub
	realCount map[string]int
}

//go:norace
func (w *World) isDead() bool { return w.dead }

//go:norace
func (w *World) takeFailNextSave() bool {
	f := w.failNextSave
	w.failNextSave = false
	return f
}

// ---------------------------------------------------------------------------
// stub task runner (DESIGN §2.5): the synchronisation skeleton of
// taskctl.TaskRunner, with the commands replaced by a park point.

type stub struct {
	world    *World
	core     *Core
	job      string
	pipeline string
	ordinal  int
	env      map[string]string
	onChange func(t *task.Task)
	ctx      context.Context
	cancelFn context.CancelFunc
	wg       sync.WaitGroup
	ioErr    bool // scenario enables writer-open faults
	begun    bool // the scheduler loop for this stub has reached its first hook

	passSnap map[string]int32 // stage statuses at the start of the current scheduler pass (loop goroutine only)
	tasks    map[string]*prunnerTaskView
}

// prunnerTaskView is what the stub was asked to run for one task (C16 oracle).
type prunnerTaskView struct {
	Commands     []string
	Env          map[string]string
	AllowFailure bool
}

var _ taskctl.Runner = &stub{}

// jobRunner is what the hook handlers need to know about the task runner of a job, be it the
// stub or the wrapper around the real taskctl.TaskRunner (engine C).
type jobRunner interface {
	taskctl.Runner
	jobName() string
	theWorld() *World
	pass() *map[string]int32 // stage statuses at the start of the current scheduler pass
	markBegun() bool         // true the first time
	ev(kind, taskName, arg string)
}

func (s *stub) jobName() string          { return s.job }
func (s *stub) theWorld() *World         { return s.world }
func (s *stub) pass() *map[string]int32  { return &s.passSnap }
func (s *stub) markBegun() bool          { b := !s.begun; s.begun = true; return b }

func (s *stub) SetOnTaskChange(f func(t *task.Task)) { s.onChange = f }

func (s *stub) ev(kind, taskName, arg string) {
	if s.world.isDead() {
		return
	}
	s.core.emit(Event{Kind: kind, World: s.world.id, Job: s.job, Task: taskName, Arg: arg, Stub: s.ordinal, At: -1})
}

const (
	outOK    = relOutcomeBase + iota // success; "killed" if the stop was delivered meanwhile
	outExit0                         // success even if the stop was delivered (process exits 0 on SIGINT)
	outFail                          // exit status 3
	outIOErr                         // output writer could not be opened (before any notification)
)

func (s *stub) Run(t *task.Task) error {
	s.wg.Add(1)
	defer s.wg.Done()

	if err := s.ctx.Err(); err != nil {
		s.ev("run-refused", t.Name, "")
		return err
	}
	var cmds []string
	cmds = append(cmds, t.Commands...)
	envMap := map[string]string{}
	if t.Env != nil {
		for k, v := range t.Env.Map() {
			envMap[k] = fmt.Sprint(v)
		}
	}
	s.core.emit(Event{Kind: "run-args", World: s.world.id, Job: s.job, Task: t.Name, Stub: s.ordinal, At: -1,
		Arg: encodeArgs(cmds, envMap, t.AllowFailure, s.env)})

	if s.ioErr {
		if code := s.core.park("task.open", "task.open:"+s.job+"/"+t.Name, s, lkNone); code == outIOErr {
			if t.AllowFailure {
				s.ev("run-exit", t.Name, "ioerr-allowed") // the task failed before its first command, and may
			} else {
				s.ev("run-exit", t.Name, "ioerr")
			}
			return errors.New("creating task output log file: simulated I/O error")
		}
	}

	t.Start = time.Now()
	s.onChange(t)
	if s.ctx.Err() != nil {
		// the stop arrived before the first command was started: the interpreter runs nothing
		t.Errored = true
		t.Error = context.Canceled
		s.onChange(t)
		s.ev("run-refused", t.Name, "late")
		return t.Error
	}
	s.ev("run-enter", t.Name, "")
	if s.world.out != nil && !s.world.isDead() {
		if w, err := s.world.out.Writer(jobIDFromTask(t), t.Name, "stdout"); err == nil {
			_, _ = io.WriteString(w, "out of "+s.job+"/"+t.Name+"\n")
			_ = w.Close()
		}
	}
	code := s.core.park("task.exec", "task.exec:"+s.job+"/"+t.Name, s, lkNone)
	cancelled := s.ctx.Err() != nil
	switch {
	case code == outFail:
		t.ExitCode = 3
		if t.AllowFailure {
			s.onChange(t)
			t.End = time.Now()
			s.onChange(t)
			t.ExitCode = 0 // the real runner resets it in its deferred function
			s.ev("run-exit", t.Name, "fail-allowed")
			return nil
		}
		t.Errored = true
		t.Error = errors.New("exit status 3")
		s.onChange(t)
		s.ev("run-exit", t.Name, "fail")
		return t.Error
	case cancelled && code != outExit0:
		t.Errored = true
		t.Error = context.Canceled
		s.onChange(t)
		s.ev("run-exit", t.Name, "killed")
		return t.Error
	}
	t.End = time.Now()
	s.onChange(t)
	s.ev("run-exit", t.Name, "ok")
	return nil
}

func jobIDFromTask(t *task.Task) string {
	s, _ := t.Variables.Get(taskctl.JobIDVariableName).(string)
	return s
}

func (s *stub) Cancel() {
	s.core.park("runner.cancel", "runner.cancel:"+s.job, s, lkNone)
	s.ev("cancel-delivered", "", "")
	s.cancelFn()
	s.wg.Wait()
}

func (s *stub) Finish() { s.ev("finish", "", "") }

func encodeArgs(cmds []string, env map[string]string, allow bool, pipeEnv map[string]string) string {
	return fmt.Sprintf("%q|%v|%v|%v", cmds, sortedMap(env), allow, sortedMap(pipeEnv))
}

func sortedMap(m map[string]string) string {
	keys := make([]string, 0, len(m))
	for k := range m {
		keys = append(keys, k)
	}
	sortStrings(keys)
	s := "{"
	for _, k := range keys {
		s += fmt.Sprintf("%q:%q,", k, m[k])
	}
	return s + "}"
}

// ---------------------------------------------------------------------------
// recStore: the DataStore handed to the runner. It records every snapshot handed
// to Save and which saves completed, and either keeps the data in memory (with a
// park point and fault injection of its own) or delegates to the real
// store.JsonDataStore (whose hook points then provide the yields and faults).

type handedSave struct {
	Data *store.PersistedData
	Step int  // step in which SaveToStore built the snapshot
	Done bool // Save returned
	OK   bool // ... without error
}

type recStore struct {
	world     *World
	core      *Core
	inner     *store.JsonDataStore
	initial   *store.PersistedData
	handed    []*handedSave
	completed []int // indexes into handed, in order of successful completion
}

const (
	saveOK   = relOutcomeBase + 8
	saveFail = relOutcomeBase + 9
)

func (m *recStore) Load() (*store.PersistedData, error) {
	if m.inner != nil {
		return m.inner.Load()
	}
	if m.initial != nil {
		return roundTrip(m.initial)
	}
	return &store.PersistedData{}, nil
}

//go:norace
func (m *recStore) Save(d *store.PersistedData) error {
	idx := len(m.handed)
	if so := m.world.run.sc.Cfg.StoreOrder; so != 0 && d != nil && len(d.Jobs) > 1 {
		// pin the order of the jobs in the snapshot (in the runner: iteration order of a map)
		sort.Slice(d.Jobs, func(i, j int) bool { return d.Jobs[i].ID.String() < d.Jobs[j].ID.String() })
		rand.New(rand.NewPCG(so, uint64(idx))).Shuffle(len(d.Jobs), func(i, j int) { d.Jobs[i], d.Jobs[j] = d.Jobs[j], d.Jobs[i] })
	}
	h := &handedSave{Data: d, Step: m.world.run.curStep() + 1}
	m.handed = append(m.handed, h)
	var err error
	if m.inner != nil {
		err = m.inner.Save(d)
	} else if m.core.park("store.save", "store.save", m.world, lkNone) == saveFail {
		err = errors.New("simulated ENOSPC")
	}
	h.Done = true
	if err == nil {
		h.OK = true
		m.completed = append(m.completed, idx)
	}
	return err
}

//go:norace
func (m *recStore) last() *store.PersistedData {
	if len(m.completed) == 0 {
		return nil
	}
	return m.handed[m.completed[len(m.completed)-1]].Data
}

//go:norace
func (m *recStore) counts() (handed, completed int) { return len(m.handed), len(m.completed) }

// ---------------------------------------------------------------------------
// canonical names (DESIGN §2.2). Computed on the parking goroutine from the
// objects it is about to use anyway; never from arrival order or addresses.

// lockMarker: the instrumenter appends "\x00lockW"|"\x00lockR", &L to the
// arguments of a hook point that stands directly in front of L.Lock() / L.RLock().
func lockMarker(ctx []interface{}) (rest []interface{}, attr lockAttr, lock uintptr) {
	for i := 0; i+1 < len(ctx); i++ {
		if m, ok := ctx[i].(string); ok && strings.HasPrefix(m, "\x00lock") {
			attr = lkW
			if m == "\x00lockR" {
				attr = lkR
			}
			return ctx[:i], attr, ptrOf(ctx[i+1])
		}
	}
	return ctx, lkNone, 0
}

// ptrOf: identity of a lock handed over as *sync.Mutex / *sync.RWMutex.
func ptrOf(v interface{}) uintptr {
	rv := reflect.ValueOf(v)
	if rv.Kind() == reflect.Ptr && !rv.IsNil() {
		return rv.Pointer()
	}
	return 0
}

func nameOf(point string, ctx []interface{}) (name string, owner interface{}, attr lockAttr, lock uintptr) {
	ctx, mAttr, lock := lockMarker(ctx)
	defer func() {
		if mAttr != lkNone {
			attr = mAttr // what the code really does next beats the table below
		}
	}()
	if len(ctx) > 0 {
		owner = ctx[0]
	}
	name = point
	if strings.HasPrefix(point, "auto.W:") {
		attr = lkW
	} else if strings.HasPrefix(point, "auto.R:") {
		attr = lkR
	}
	switch point {
	case "ScheduleAsync", "ReplaceDefinitions", "Shutdown.begin", "Shutdown.force":
		attr = lkW
	case "ListPipelines", "IterateJobs", "SaveToStore", "Shutdown.poll":
		attr = lkR
	case "Shutdown.wait":
		attr = lkNone
	case "ReadJob":
		attr = lkR
		name = point + ":" + jobName(ctx[1].(uuid.UUID))
	case "CancelJob", "JobCompleted", "StartDelayedJob":
		attr = lkW
		name = point + ":" + jobName(ctx[1].(uuid.UUID))
	case "cancel.go":
		name = point + ":" + jobName(ctx[1].(uuid.UUID))
	case "HandleTaskChange":
		attr = lkW
		t := ctx[1].(*task.Task)
		name = point + ":" + jobNameFromVars(t.Variables) + "/" + t.Name
	case "HandleStageChange":
		attr = lkW
		st := ctx[1].(*scheduler.Stage)
		name = point + ":" + jobNameFromVars(st.Variables) + "/" + st.Name
	case "sched.loop":
		attr = lkW // the launch pass goes through HandleStageChange without parking (DESIGN §2.3)
		if s, ok := ctx[0].(jobRunner); ok {
			name = point + ":" + s.jobName()
		}
	case "stage.go":
		st := ctx[1].(*scheduler.Stage)
		if s, ok := ctx[0].(jobRunner); ok {
			name = point + ":" + s.jobName() + "/" + st.Name
		}
	case "store.load.opened":
	case "store.save.created", "store.save.encoded", "store.save.closed", "store.save.renamed":
	}
	return
}

// ---------------------------------------------------------------------------
// world construction

const jwtSecret = "not-very-secret-0123456789"

func (run *Run) newWorld(initial *store.PersistedData, defs DefSet, defsIx int) (*World, error) {
	return run.newWorldIn("", initial, defs, defsIx)
}

func jwtTokenAuth() *jwtauth.JWTAuth { return jwtauth.New("HS256", []byte(jwtSecret), nil) }

func (run *Run) newWorldIn(dir string, initial *store.PersistedData, defs DefSet, defsIx int) (*World, error) {
	w := &World{id: len(run.worlds) + 1, run: run, defs: cloneDefSet(defs), defsIx: defsIx, stubs: map[string][]*stub{}, realCount: map[string]int{}, dir: dir}
	w.ctx, w.cancel = context.WithCancel(context.Background())
	cfg := run.sc.Cfg
	switch cfg.Store {
	case "mem":
		w.mem = &recStore{world: w, core: run.core, initial: initial}
		w.store = w.mem
	case "json":
		if w.dir == "" {
			d, err := run.newDir()
			if err != nil {
				return nil, err
			}
			w.dir = d
		}
		js, err := store.NewJSONDataStore(w.dir)
		if err != nil {
			return nil, err
		}
		run.storeOwner[js] = w
		w.mem = &recStore{world: w, core: run.core, inner: js}
		w.store = w.mem
	}
	if cfg.Logs {
		if w.dir == "" {
			dir, err := run.newDir()
			if err != nil {
				return nil, err
			}
			w.dir = dir
		}
		fo, err := taskctl.NewOutputStore(w.dir + "/logs")
		if err != nil {
			return nil, err
		}
		w.out = &outStore{inner: fo, world: w, core: run.core}
	} else if cfg.Store != "none" {
		w.out = &outStore{world: w, core: run.core}
	}
	var st store.DataStore
	if w.store != nil {
		st = w.store
	}
	r, err := prunner.NewPipelineRunner(w.ctx, defs.toDefs(), func(j *prunner.PipelineJob) taskctl.Runner {
		if cfg.RealRunner {
			return w.newReal(j)
		}
		return w.newStub(j)
	}, st, w.out)
	if err != nil {
		return nil, err
	}
	if cfg.PollMs > 0 {
		r.ShutdownPollInterval = time.Duration(cfg.PollMs) * time.Millisecond
	}
	w.r = r
	run.runnerOwner[r] = w
	if cfg.HTTP {
		srv := server.NewServer(r, w.out, func(h http.Handler) http.Handler { return h }, jwtTokenAuth(), cfg.Profiling)
		w.srv = srv
		for _, rt := range discoverRoutes(srv) {
			if !skipRoute(rt.Path) {
				w.routes = append(w.routes, rt)
			}
		}
	}
	run.worlds = append(run.worlds, w)
	return w, nil
}

// newStub is the createTaskRunner callback; it runs on a system goroutine under
// the runner's write lock.
func (w *World) newStub(j *prunner.PipelineJob) *stub {
	name := jobName(j.ID)
	s := &stub{world: w, core: w.run.core, job: name, pipeline: j.Pipeline, env: cloneMap(j.Env), ioErr: w.run.sc.Cfg.PIOErr > 0}
	s.ctx, s.cancelFn = context.WithCancel(context.Background())
	w.stubsMu.Lock()
	w.stubs[name] = append(w.stubs[name], s)
	s.ordinal = len(w.stubs[name])
	w.stubsMu.Unlock()
	s.ev("created", "", "")
	return s
}

// outStore wraps the real FileOutputStore (or nothing) and can fail Remove.
type outStore struct {
	inner    taskctl.OutputStore
	world    *World
	core     *Core
	failNext bool
}

func (o *outStore) Writer(jobID, taskName, outputName string) (io.WriteCloser, error) {
	if o.inner == nil {
		return nopWC{}, nil
	}
	return o.inner.Writer(jobID, taskName, outputName)
}

func (o *outStore) Reader(jobID, taskName, outputName string) (io.ReadCloser, error) {
	if o.inner == nil {
		return nil, errors.New("no log store in this run")
	}
	return o.inner.Reader(jobID, taskName, outputName)
}

//go:norace
func (o *outStore) Remove(jobID string) error {
	name := "j?"
	if id, err := uuid.FromString(jobID); err == nil {
		name = jobName(id)
	}
	if !o.world.isDead() {
		o.core.emit(Event{Kind: "log-remove", World: o.world.id, Job: name, At: -1})
	}
	if o.world.run.sc.Cfg.Readers {
		o.core.park("out.remove", "out.remove", o.world, lkHoldR)
	}
	if o.world.failRemove > 0 && !o.world.isDead() {
		// the driver drew, when it released this save, which of its removals fails
		o.world.failRemove--
		if o.world.failRemove == 0 {
			o.core.emit(Event{Kind: "log-remove-failed", World: o.world.id, Job: name, At: -1})
			return errors.New("simulated EIO")
		}
	}
	if o.inner == nil {
		return nil
	}
	return o.inner.Remove(jobID)
}

func uuidFromString(s string) (uuid.UUID, error) { return uuid.FromString(s) }

type nopWC struct{}

func (nopWC) Write(p []byte) (int, error) { return len(p), nil }
func (nopWC) Close() error                { return nil }

var _ = definition.QueueStrategyAppend
