package sim

import (
	"encoding/json"
	"fmt"
	"math/rand/v2"
	"os"
	"path/filepath"
	"strings"
	"sync"
	"testing/synctest"
	"time"

	"github.com/Flowpack/prunner/store"
	"github.com/Flowpack/prunner/verifhook"
)

// Engine B1 (DESIGN §5 C09): the real store.JsonDataStore on a real directory,
// savers and loaders as goroutines parked between the file operations of
// Save/Load, the tape deciding who proceeds, crash as a choice at every step.

type StoreScenario struct {
	Savers   [][]SnapSpec `json:"savers"`
	Loaders  int          `json:"loaders"`
	LoadsPer int          `json:"loads_per_loader"`
	PFault   int          `json:"p_fault"` // per mille: injected write error in a save
	WCrash   int          `json:"w_crash"`
}

// SnapSpec describes one snapshot deterministically.
type SnapSpec struct {
	Tag  int `json:"tag"`                       // unique; part of every job id
	Jobs int `json:"jobs"`                      // number of jobs
	Pad  int `json:"pad"`                       // bytes of padding in a variable of each job
	Kind int `json:"kind"`                      // which variable types
	Same int `json:"same_content_as,omitempty"` // tag of an earlier snapshot of this saver whose content this one repeats exactly (the state did not change between two saves)
}

var fixedTime = time.Date(2021, 5, 4, 3, 2, 1, 123456789, time.UTC)

func buildSnapshot(sp SnapSpec) *store.PersistedData {
	if sp.Same != 0 {
		sp.Tag = sp.Same
	}
	d := &store.PersistedData{Jobs: make([]store.PersistedJob, 0, sp.Jobs)}
	for i := 0; i < sp.Jobs; i++ {
		st := fixedTime.Add(time.Duration(i) * time.Second)
		errText := "exit status 3"
		vars := map[string]interface{}{"tag": float64(sp.Tag), "i": float64(i)}
		switch sp.Kind % 4 {
		case 1:
			vars["f"] = 0.30000000000000004
			vars["tiny"] = 1e-9
			vars["s"] = "ünï©ode \"q\" \\ \n"
		case 2:
			vars["list"] = []interface{}{1.5, "x", nil, true, map[string]interface{}{"n": 2.25}}
		case 3:
			vars["nested"] = map[string]interface{}{"a": map[string]interface{}{"b": []interface{}{}}}
		}
		if sp.Pad > 0 {
			vars["pad"] = strings.Repeat("p", sp.Pad)
		}
		j := store.PersistedJob{
			ID: mkID(uint64(sp.Tag)*10000 + uint64(i) + 1), Pipeline: fmt.Sprintf("p%d", i%3),
			Completed: i%2 == 0, Canceled: i%3 == 0, Created: fixedTime, Start: &st, Variables: vars, User: "u",
			Tasks: []store.PersistedTask{{Name: "a", Script: []string{"run a"}, Status: "done", Start: &st, End: &st},
				{Name: "b", Script: []string{"run b"}, DependsOn: []string{"a"}, Status: "error", Errored: true, ExitCode: 3, Error: &errText}},
		}
		if i%2 == 1 {
			j.End = &st
		}
		d.Jobs = append(d.Jobs, j)
	}
	return d
}

func canonData(d *store.PersistedData) string {
	if d == nil {
		return "<nil>"
	}
	b, _ := json.Marshal(d)
	return string(b)
}

func generateStore(seed uint64) *Scenario {
	g := gen{rand.New(rand.NewPCG(seed, 0x53544f5245))}
	ss := &StoreScenario{Loaders: g.n(3), LoadsPer: 1 + g.n(3), WCrash: g.oneOf(0, 1, 1, 2)}
	if seed%2 == 1 {
		ss.PFault = g.oneOf(100, 250)
	}
	ns := 1 + g.n(3)
	tag := 1
	for s := 0; s < ns; s++ {
		var prog []SnapSpec
		n := 1 + g.n(4)
		for i := 0; i < n; i++ {
			sp := SnapSpec{Tag: tag, Jobs: g.oneOf(0, 1, 2, 5, 20), Kind: g.n(4)}
			switch g.n(10) {
			case 0:
				sp.Pad = 100_000 // ~2 MB with 20 jobs
			case 1, 2:
				sp.Pad = 5000 // more than one buffer of the encoder
			}
			tag++
			prog = append(prog, sp)
			if g.p(250) {
				// the same state saved again (nothing changed in between): must be as durable as the first time
				rep := sp
				rep.Tag, rep.Same = tag, sp.Tag
				if sp.Same != 0 {
					rep.Same = sp.Same
				}
				tag++
				prog = append(prog, rep)
			}
		}
		ss.Savers = append(ss.Savers, prog)
	}
	return &Scenario{Profile: "C09", Store: ss, Cfg: RunConfig{MaxSteps: 400, WParked: 4, WClient: 3, WAdvance: 0}}
}

type storeRun struct {
	sc     *Scenario
	ss     *StoreScenario
	tape   *Tape
	core   *Core
	dir    string
	js     *store.JsonDataStore
	reader *store.JsonDataStore // second store object on the same directory, opened before the first save

	step      int
	trace     []string
	choices   []string
	viol      []Violation
	stats     Stats
	handed    map[int]string // tag -> canonical content of every snapshot passed to Save so far
	lastRen   int            // tag of the snapshot most recently renamed into place (0: none)
	inflight  map[uint64]*inflightSave
	heldMu    sync.Mutex
	held      map[uintptr]uint64 // lock of the store -> goroutine that holds it
	active    map[int]*bool      // tag of a save that has been started and has not returned -> did it run alone so far?
	failNext  bool
	saverDone chan saveDone
	pendDone  []saveDone
	CrashLog  string
}

type inflightSave struct {
	tag   int
	tmp   string
	stage string
}

type saveDone struct {
	saver  int
	tag    int
	err    string
	load   string // loaders: canonical result
	isLoad bool
}

func (r *storeRun) violate(rule, format string, a ...interface{}) {
	for _, v := range r.viol {
		if v.Rule == rule {
			return
		}
	}
	r.viol = append(r.viol, Violation{"C09", rule, fmt.Sprintf(format, a...), r.step})
}

func (r *storeRun) hook(point string, ctx []interface{}) {
	if goid() == r.core.driver {
		return
	}
	name := point
	if len(ctx) > 1 {
		if tmp, ok := ctx[1].(string); ok {
			name = point + ":" + filepath.Base(tmp)
		}
	}
	// temp file names are random: the canonical name uses the saver, filled in by the driver through the goroutine id
	_, attr, lock := lockMarker(ctx) // a lock of the store itself (a version that serialises its saves)
	r.core.parkL(point, point, nil, attr, lock)
	_ = name
}

// skipHook keeps track of who holds a lock of the store (notifications inserted by cmd/instrument).
//
//go:norace
func (r *storeRun) skipHook(point string, ctx []interface{}) bool {
	if len(ctx) < 2 {
		return false
	}
	g := goid()
	if g == r.core.driver {
		return false
	}
	lock := ptrOf(ctx[1])
	raceOff()
	r.heldMu.Lock()
	switch point {
	case "auto.lockedW", "auto.lockedR":
		r.held[lock] = g
	case "auto.unlocked":
		if r.held[lock] == g {
			delete(r.held, lock)
		}
	}
	r.heldMu.Unlock()
	raceOn()
	return false
}

// blocked: would the goroutine of record p block on a lock that another goroutine holds?
//
//go:norace
func (r *storeRun) blocked(p *parked) bool {
	_, _, _, gid, attr, _ := p.rd()
	if attr != lkW && attr != lkR {
		return false
	}
	raceOff()
	r.heldMu.Lock()
	h, held := r.held[p.lockID()]
	r.heldMu.Unlock()
	raceOn()
	return held && h != gid
}

func (r *storeRun) faultHook(point string, ctx []interface{}) error {
	if point == "store.save.encode" && r.failNext {
		r.failNext = false
		// the disk filled up in the middle of the write: the temp file is incomplete
		if len(ctx) > 1 {
			if tmp, ok := ctx[1].(string); ok {
				if fi, err := os.Stat(tmp); err == nil {
					_ = os.Truncate(tmp, fi.Size()/2)
				}
			}
		}
		return fmt.Errorf("simulated ENOSPC")
	}
	return nil
}

// loadCopy loads a copy of the live directory; "" with a reason on failure.
func (r *storeRun) loadCopy() string {
	cp := r.dir + "-look2"
	_ = os.RemoveAll(cp)
	defer os.RemoveAll(cp)
	if err := copyDir(r.dir, cp); err != nil {
		return "<copy failed>"
	}
	js, err := store.NewJSONDataStore(cp)
	if err != nil {
		return "<" + err.Error() + ">"
	}
	d, err := js.Load()
	if err != nil {
		return "<" + err.Error() + ">"
	}
	return canonData(d)
}

func (r *storeRun) describe(got string) string {
	if got == canonData(&store.PersistedData{}) {
		return "the empty state"
	}
	best := 0
	for tag, c := range r.handed {
		if c == got && (best == 0 || tag < best) {
			best = tag
		}
	}
	if best != 0 {
		return fmt.Sprintf("the content of snapshot %d", best)
	}
	if len(got) > 80 {
		got = got[:80] + "..."
	}
	return "something that was never passed to a save: " + got
}

// checkDisk: the file on disk (or a crash copy of the directory) must load to
// the snapshot most recently renamed into place — never anything else.
func (r *storeRun) checkDisk(dir, when string) {
	// The live directory is read through a second store object opened before the first save. (Opening one per
	// step is something only a harness does: a store that tidies up temporary files when it is opened then
	// deleted the files of the saves in flight, which hid a seeded change. What a process started after a kill
	// sees - constructor included - is checked on the crash copies.)
	js := r.reader
	if dir != r.dir || js == nil {
		var err error
		js, err = store.NewJSONDataStore(dir)
		if err != nil {
			r.violate("r0", "%s: %v", when, err)
			return
		}
	}
	d, err := js.Load()
	if err != nil {
		r.violate("r1", "%s: the store file does not load: %v", when, err)
		return
	}
	got := canonData(d)
	want := canonData(&store.PersistedData{})
	if r.lastRen != 0 {
		want = r.handed[r.lastRen]
	}
	if got != want {
		known := "no snapshot ever passed to a save"
		for tag, c := range r.handed {
			if c == got {
				known = fmt.Sprintf("snapshot %d", tag)
			}
		}
		if got == canonData(&store.PersistedData{}) {
			known = "the empty state"
		}
		rule := "r2"
		if known == "no snapshot ever passed to a save" {
			rule = "r1"
		}
		r.violate(rule, "%s: loading the store gives %s (%d bytes), expected snapshot %d, the one most recently renamed into place", when, known, len(got), r.lastRen)
	}
	// independent decode of the raw bytes
	if b, err := os.ReadFile(filepath.Join(dir, "data.json")); err == nil {
		var any interface{}
		if err := json.Unmarshal(b, &any); err != nil {
			r.violate("r1", "%s: data.json is not complete JSON: %v", when, err)
		}
	} else if r.lastRen != 0 {
		r.violate("r1", "%s: data.json is missing after a save was renamed into place", when)
	}
}

func (r *storeRun) execute() error {
	r.core = newCore()
	base := "/dev/shm"
	if _, err := os.Stat(base); err != nil {
		base = os.TempDir()
	}
	root, err := os.MkdirTemp(base, "verif-store-")
	if err != nil {
		return err
	}
	defer os.RemoveAll(root)
	r.dir = filepath.Join(root, "data")
	r.js, err = store.NewJSONDataStore(r.dir)
	if err != nil {
		return err
	}
	if r.reader, err = store.NewJSONDataStore(r.dir); err != nil {
		return err
	}
	verifhook.Handler = r.hook
	verifhook.FaultHandler = r.faultHook
	verifhook.SkipHandler = r.skipHook
	defer func() { verifhook.Handler, verifhook.FaultHandler, verifhook.SkipHandler = nil, nil, nil }()
	r.handed = map[int]string{}
	r.inflight = map[uint64]*inflightSave{}
	r.active = map[int]*bool{}
	r.held = map[uintptr]uint64{}
	r.saverDone = make(chan saveDone, 256)

	type actor struct {
		kind  string
		idx   int
		next  int
		busy  bool
		gid   uint64
		total int
	}
	var actors []*actor
	for i, p := range r.ss.Savers {
		actors = append(actors, &actor{kind: "saver", idx: i, total: len(p)})
	}
	for i := 0; i < r.ss.Loaders; i++ {
		actors = append(actors, &actor{kind: "loader", idx: i, total: r.ss.LoadsPer})
	}
	gidActor := map[uint64]*actor{}
	hello := make(chan [2]uint64, 64)
	crashes := 0

	for r.step < r.sc.Cfg.MaxSteps {
		Heartbeat.Add(1)
		synctest.Wait()
		// collect
		raceOff()
	drainH:
		for {
			select {
			case h := <-hello:
				a := actors[h[0]]
				a.gid = h[1]
				gidActor[h[1]] = a
			default:
				break drainH
			}
		}
	drainD:
		for {
			select {
			case d := <-r.saverDone:
				r.pendDone = append(r.pendDone, d)
			default:
				break drainD
			}
		}
		raceOn()
		r.core.drain()
		for _, p := range r.core.parkedQ {
			if r.core.tags[p] == "" {
				_, _, _, gid, _, _ := p.rd()
				if a := gidActor[gid]; a != nil {
					r.core.tags[p] = fmt.Sprintf("@%s%d", a.kind, a.idx)
				}
			}
		}
		r.core.sortParked()
		for _, d := range r.pendDone {
			for _, a := range actors {
				if a.kind == "saver" && !d.isLoad && a.idx == d.saver || a.kind == "loader" && d.isLoad && a.idx == d.saver {
					a.busy = false
				}
			}
		}
		r.pendDone = nil

		// choices: parked goroutines, actor starts, crash
		type ch struct {
			kind string
			rec  *parked
			a    *actor
			name string
			w    int
		}
		var cs []ch
		for _, p := range r.core.parkedQ {
			if r.blocked(p) {
				continue // it would block on a lock of the store that a parked saver holds
			}
			cs = append(cs, ch{kind: "release", rec: p, name: r.core.final(p), w: r.sc.Cfg.WParked})
		}
		for ai, a := range actors {
			if !a.busy && a.next < a.total {
				cs = append(cs, ch{kind: "start", a: actors[ai], name: fmt.Sprintf("start:%s%d", a.kind, a.idx), w: r.sc.Cfg.WClient})
			}
		}
		if len(cs) == 0 {
			break
		}
		if r.ss.WCrash > 0 && crashes < 3 {
			cs = append(cs, ch{kind: "crash", name: "crash", w: r.ss.WCrash})
		}
		total := 0
		for _, c := range cs {
			total += c.w
		}
		x := r.tape.Pick(total)
		var pick ch
		for _, c := range cs {
			if x < c.w {
				pick = c
				break
			}
			x -= c.w
		}
		line := pick.name
		switch pick.kind {
		case "release":
			point, _, _, gid, _, _ := pick.rec.rd()
			inf := r.inflight[gid]
			switch point {
			case "store.save.created":
				if r.ss.PFault > 0 && r.tape.Pick(1000) >= 1000-r.ss.PFault {
					r.failNext = true
					line += " =fault"
					r.stats.Faults["store_write_error"]++
				}
			case "store.save.closed":
			}
			r.core.release(pick.rec, relGo)
			// where did it get to?
			r.core.drain()
			for _, p := range r.core.parkedQ {
				pt, _, _, g2, _, _ := p.rd()
				if g2 == gid && inf != nil {
					inf.stage = pt
					if pt == "store.save.renamed" {
						r.lastRen = inf.tag
					}
				}
			}
		case "start":
			a := pick.a
			a.busy = true
			k := a.next
			a.next++
			ai := 0
			for i := range actors {
				if actors[i] == a {
					ai = i
				}
			}
			if a.kind == "saver" {
				sp := r.ss.Savers[a.idx][k]
				data := buildSnapshot(sp)
				r.handed[sp.Tag] = canonData(data)
				alone := len(r.active) == 0
				for _, a := range r.active {
					*a = false
				}
				r.active[sp.Tag] = &alone
				line += fmt.Sprintf(" snapshot %d (%d jobs, %d bytes)", sp.Tag, sp.Jobs, len(r.handed[sp.Tag]))
				go func() {
					g := goid()
					raceOff()
					hello <- [2]uint64{uint64(ai), g}
					raceOn()
					err := r.js.Save(data)
					e := ""
					if err != nil {
						e = err.Error()
					}
					raceOff()
					r.saverDone <- saveDone{saver: a.idx, tag: sp.Tag, err: e}
					raceOn()
				}()
				synctest.Wait()
				r.core.drain()
				// the new goroutine is parked at store.save.created (temp file exists)
				for _, p := range r.core.parkedQ {
					pt, _, _, gid, _, _ := p.rd()
					if _, known := r.inflight[gid]; !known && (pt == "store.save.created" || strings.HasPrefix(pt, "auto.")) {
						r.inflight[gid] = &inflightSave{tag: sp.Tag, stage: pt}
					}
				}
			} else {
				go func() {
					g := goid()
					raceOff()
					hello <- [2]uint64{uint64(ai), g}
					raceOn()
					d, err := r.js.Load()
					res := saveDone{saver: a.idx, isLoad: true}
					if err != nil {
						res.err = err.Error()
					} else {
						res.load = canonData(d)
					}
					raceOff()
					r.saverDone <- res
					raceOn()
				}()
				synctest.Wait()
			}
		case "crash":
			crashes++
			r.stats.Faults["crash_copy"]++
			cp := filepath.Join(root, fmt.Sprintf("crash%d", crashes))
			if err := copyDir(r.dir, cp); err != nil {
				return err
			}
			// a kill in the middle of write(2): every temp file of a save that has not been closed yet is cut short
			ents, _ := os.ReadDir(cp)
			for _, e := range ents {
				if strings.HasSuffix(e.Name(), ".tmp") {
					fi, _ := e.Info()
					if fi != nil && fi.Size() > 0 {
						cut := int64(r.tape.Pick(int(fi.Size()) + 1))
						_ = os.Truncate(filepath.Join(cp, e.Name()), cut)
						r.stats.Faults["torn_temp_file"]++
					}
				}
			}
			r.checkDisk(cp, fmt.Sprintf("step %d, after a crash", r.step+1))
			_ = os.RemoveAll(cp)
		}
		synctest.Wait()
		// results of operations that completed in this step
		raceOff()
	drainD2:
		for {
			select {
			case d := <-r.saverDone:
				r.pendDone = append(r.pendDone, d)
			default:
				break drainD2
			}
		}
		raceOn()
		r.step++
		for _, d := range r.pendDone {
			if d.isLoad {
				line += fmt.Sprintf(" [loader%d -> %d bytes %s]", d.saver, len(d.load), d.err)
				if d.err != "" {
					r.violate("r1", "step %d: a concurrent Load failed: %s", r.step, d.err)
				} else {
					ok := d.load == canonData(&store.PersistedData{})
					for _, c := range r.handed {
						if c == d.load {
							ok = true
						}
					}
					if !ok {
						r.violate("r1", "step %d: a concurrent Load returned data that is no snapshot ever passed to a save", r.step)
					}
				}
				r.stats.Probes["concurrent_load"]++
			} else {
				line += fmt.Sprintf(" [saver%d snapshot %d -> %s]", d.saver, d.tag, orStr(d.err, "ok"))
				alone := r.active[d.tag] != nil && *r.active[d.tag]
				delete(r.active, d.tag)
				if d.err == "" {
					r.stats.Probes["save_ok"]++
					if r.lastRen == d.tag {
						r.stats.Probes["save_ok_and_last"]++
					}
					if alone {
						// "a save that has returned successfully is what the next load returns" - judged from the outside,
						// for a save no other save overlapped: whatever the store did or skipped, the disk holds this snapshot
						r.stats.Probes["save_alone_ok"]++
						if got := r.loadCopy(); got != r.handed[d.tag] {
							r.violate("r4", "step %d: the save of snapshot %d returned successfully and no other save ran meanwhile, but loading the store now gives %s", r.step, d.tag, r.describe(got))
						}
					}
				} else {
					r.stats.Probes["save_failed"]++
					if r.lastRen == d.tag {
						r.violate("r3", "step %d: the save of snapshot %d returned an error (%s) but the snapshot was renamed into place", r.step, d.tag, d.err)
					}
				}
			}
		}
		r.checkDisk(r.dir, fmt.Sprintf("step %d (%s)", r.step, pick.name))
		nin := 0
		for _, p := range r.core.parkedQ {
			if pt, _, _, _, _, _ := p.rd(); strings.HasPrefix(pt, "store.save.") {
				nin++
			}
		}
		if nin >= 2 {
			r.stats.Probes["overlapping_saves"]++
		}
		r.trace = append(r.trace, fmt.Sprintf("%d %s", r.step, line))
		r.choices = append(r.choices, pick.name)
		if r.CrashLog != "" {
			b, _ := json.Marshal(CrashRecord{Step: r.step, Tape: r.tape.Used(), Choices: r.choices, Violations: r.viol})
			_ = os.WriteFile(r.CrashLog, b, 0o644)
		}
	}
	// leftover temp files? none may remain once every save has returned
	if len(r.core.parkedQ) == 0 {
		ents, _ := os.ReadDir(r.dir)
		for _, e := range ents {
			if strings.HasSuffix(e.Name(), ".tmp") {
				r.stats.Probes["leftover_temp_file"]++
			}
		}
	}
	r.stats.Steps = r.step
	r.stats.Started = len(r.handed)
	// teardown: let everything run to completion
	for i := 0; i < 200 && len(r.core.parkedQ) > 0; i++ {
		r.core.release(r.core.parkedQ[0], relGo)
		r.core.drain()
	}
	return nil
}
