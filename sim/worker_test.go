package sim

import (
	"math/rand/v2"
	"crypto/sha256"
	"encoding/hex"
	"encoding/json"
	"fmt"
	"os"
	"os/exec"
	"os/signal"
	"path/filepath"
	"sort"
	"strings"
	"syscall"
	"testing"
	"time"

	"github.com/apex/log"
	"github.com/apex/log/handlers/discard"

	"verif/sig"
)

// WorkerJob is passed in the environment variable VERIF_JOB by the orchestrator.
type WorkerJob struct {
	Mode      string  `json:"mode"` // search | replay | dump
	Property  string  `json:"property"`
	Profile   string  `json:"profile"`
	SeedBase  uint64  `json:"seed_base"`
	Worker    int     `json:"worker"`
	Workers   int     `json:"workers"`
	MaxRuns   int     `json:"max_runs"`
	DeadlineS float64 `json:"deadline_s"`
	Replay    string  `json:"replay,omitempty"`
	Out       string  `json:"out"`
	ReplayDir string  `json:"replay_dir"`
	MinBudget int     `json:"min_budget"`
	OnlySeed  *uint64 `json:"only_seed,omitempty"`
	StartK    int     `json:"start_k,omitempty"`
	NoMin     bool    `json:"no_min,omitempty"`
	MaxViol   int     `json:"max_viol,omitempty"`
}

type FoundViolation struct {
	Seed      uint64    `json:"seed"`
	V         Violation `json:"violation"`
	Replay    string    `json:"replay"`
	OrigTape  int       `json:"orig_tape_len"`
	MinTape   int       `json:"min_tape_len"`
	OrigOps   int       `json:"orig_ops"`
	MinOps    int       `json:"min_ops"`
	MinRuns   int       `json:"min_runs"`
	Reproduce bool      `json:"reproduced_in_process"`
}

type Sample struct {
	Seed     uint64    `json:"seed"`
	Scenario *Scenario `json:"scenario"`
	Tape     []uint32  `json:"tape"`
	Steps    int       `json:"steps"`
	Trace    []string  `json:"trace_head,omitempty"`
}

type WorkerOut struct {
	Runs         int              `json:"runs"`
	Steps        int64            `json:"steps"`
	SimSeconds   float64          `json:"sim_seconds"`
	WallS        float64          `json:"wall_s"`
	Faults       map[string]int   `json:"faults"`
	Probes       map[string]int   `json:"probes"`
	Hashes       []string         `json:"hashes"` // distinct trace hashes of non-trivial runs
	Abstract     []string         `json:"abstract"`
	Samples      []Sample         `json:"samples"`
	Violations   []FoundViolation `json:"violations"`
	OtherProps   map[string]int   `json:"other_props"`
	Inconclusive map[string]int   `json:"inconclusive"`
	Leaks        int              `json:"leaks"`
	Accepted     int              `json:"accepted"`
	Started      int              `json:"started"`
	Errors       []string         `json:"errors,omitempty"`
	SeedsFirst   uint64           `json:"seed_first"`
	SeedsLast    uint64           `json:"seed_last"`
	Sets         map[string][]string `json:"sets,omitempty"`
}

// nontrivialProbes: a run counts as non-trivial for a property if it reached
// at least one of these probes (prefix match).
var nontrivialProbes = map[string][]string{
	"C01": {"dequeue_start"},
	"C02": {"multi_task_job_ran"},
	"C03": {"cancel_waiting", "settled_with_waiting", "dequeue_start", "reload_while_queued"},
	"C04": {"cancel_"},
	"C05": {"admission:replace", "admission:append", "admission:queuefull", "admission:noqueue"},
	"C06": {"dequeue_start"},
	"C07": {"delayed_job_started", "replace_with_waiting"},
	"C08": {"failfast_failure", "continue_after_failure"},
	"C09": {"save_ok", "save_failed"},
	"C10": {"restart_with_"},
	"C11": {"shutdown_", "persist_liveness_checked"},
	"C12": {"retention_removed_jobs", "purge_undefined_pipeline"},
	"C13": {"read_lock_holder_ran_inside_another"},
	"C14": {"http_"},
	"C20": {"canceled_tree_checked"},
	"C18": {"env_task_checked"},
	"C19": {"output_task_checked", "late_writer_checked"},
	"C17": {"edit_checked_after_poll", "invalid_edit_checked_after_poll"},
	"C15": {"schedulable_probe", "http_list"},
	"C16": {"reload_while_queued", "reload_while_running"},
}

func nontrivial(prop string, st *Stats) bool {
	pre, ok := nontrivialProbes[prop]
	if !ok {
		return st.Started > 0
	}
	for k := range st.Probes {
		for _, p := range pre {
			if strings.HasPrefix(k, p) {
				return true
			}
		}
	}
	return false
}

func opsCount(sc *Scenario) int {
	n := 0
	for _, c := range sc.Clients {
		n += len(c)
	}
	return n
}

func startWatchdog(out string) {
	go func() {
		last := Heartbeat.Load()
		lastChange := time.Now()
		for {
			time.Sleep(2 * time.Second)
			if v := Heartbeat.Load(); v != last {
				last, lastChange = v, time.Now()
			} else if time.Since(lastChange) > 90*time.Second {
				fmt.Fprintln(os.Stderr, "WATCHDOG: no simulator step for 90s; giving up (harness trouble, not a violation)")
				os.Exit(3)
			}
		}
	}()
}

func TestWorker(t *testing.T) {
	spec := os.Getenv("VERIF_JOB")
	if spec == "" {
		t.Skip("VERIF_JOB not set")
	}
	var job WorkerJob
	if err := json.Unmarshal([]byte(spec), &job); err != nil {
		t.Fatalf("bad VERIF_JOB: %v", err)
	}
	log.SetHandler(discard.Default)
	startWatchdog(job.Out)
	primeSignals()
	switch job.Mode {
	case "replay":
		workerReplay(t, &job)
	case "crash":
		workerCrash(t, &job)
	case "hashes":
		res := map[string]string{}
		for k := 0; k < job.MaxRuns; k++ {
			seed := job.SeedBase + uint64(k)
			sc := Generate(seed, job.Profile, seed%2 == 1)
			td := os.Getenv("VERIF_TRACE_DIR")
			r := RunOnce(t, sc, NewSearchTape(seed), td != "")
			if td != "" {
				_ = os.WriteFile(filepath.Join(td, fmt.Sprintf("%d-%s-%d.txt", seed, r.Hash, os.Getpid())), []byte(strings.Join(r.Trace, "\n")), 0o644)
			}
			res[fmt.Sprint(seed)] = fmt.Sprintf("%s/%d/%d", r.Hash, r.Stats.Steps, len(r.Violations))
		}
		b, _ := json.Marshal(res)
		_ = os.WriteFile(job.Out, b, 0o644)
	case "dump":
		sc := Generate(*job.OnlySeed, job.Profile, *job.OnlySeed%2 == 1)
		res := RunOnce(t, sc, NewSearchTape(*job.OnlySeed), true)
		b, _ := json.MarshalIndent(res, "", " ")
		fmt.Println(string(b))
	default:
		workerSearch(t, &job)
	}
}

func workerReplay(t *testing.T, job *WorkerJob) {
	rf, err := ReadReplay(job.Replay)
	if err != nil {
		t.Fatalf("reading replay: %v", err)
	}
	res := RunOnce(t, rf.Scenario, NewReplayTape(rf.Tape), true)
	out := map[string]interface{}{
		"reproduced": res.Has(rf.Property, rf.Rule),
		"hash_match": res.Hash == rf.TraceHash,
		"hash":       res.Hash,
		"violations": res.Violations,
		"trace":      res.Trace,
	}
	b, _ := json.MarshalIndent(out, "", " ")
	if job.Out != "" {
		_ = os.WriteFile(job.Out, b, 0o644)
	} else {
		fmt.Println(string(b))
	}
}

func workerSearch(t *testing.T, job *WorkerJob) {
	t0 := time.Now()
	out := &WorkerOut{Faults: map[string]int{}, Probes: map[string]int{}, OtherProps: map[string]int{}, Inconclusive: map[string]int{}}
	hashes := map[string]bool{}
	abstract := map[string]bool{}
	sets := map[string]map[string]bool{}
	deadline := t0.Add(time.Duration(job.DeadlineS * float64(time.Second)))
	seenRule := map[string]bool{}
	maxViol := job.MaxViol
	if maxViol == 0 {
		maxViol = 4
	}
	first := true
	lastPartial := time.Now()
	for k := job.StartK; job.MaxRuns == 0 || k < job.StartK+job.MaxRuns; k++ {
		if job.DeadlineS > 0 && time.Now().After(deadline) {
			break
		}
		seed := job.SeedBase + uint64(job.Worker) + uint64(k)*uint64(job.Workers)
		if job.OnlySeed != nil {
			if k > job.StartK {
				break
			}
			seed = *job.OnlySeed
		}
		if first {
			out.SeedsFirst = seed
			first = false
		}
		out.SeedsLast = seed
		if job.Out != "" {
			_ = os.WriteFile(job.Out+".progress", []byte(fmt.Sprintf("%d %d", seed, k)), 0o644)
			if time.Since(lastPartial) > 2*time.Second {
				// what has been covered so far survives a run that kills the process
				lastPartial = time.Now()
				snap := *out
				snap.Hashes, snap.Abstract = keys(hashes), keys(abstract)
				snap.WallS = time.Since(t0).Seconds()
				pb, _ := json.Marshal(&snap)
				_ = os.WriteFile(job.Out+".partial", pb, 0o644)
			}
		}
		faults := seed%2 == 1
		sc := Generate(seed, job.Profile, faults)
		if job.Profile == "C19" && k == 0 && job.OnlySeed == nil && sc.Late == nil {
			// The first run of every worker process is a late-writer scenario: what it looks for (a buffer handed back
			// and written to afterwards) depends on package-level free lists of the code under test, which are in
			// their initial state only in a process that has not run anything yet.
			sc = &Scenario{Profile: "C19", Late: genLate(gen{rand.New(rand.NewPCG(seed, 0x4c415445))}), Cfg: RunConfig{MaxSteps: 10}}
		}
		var res *RunResult
		if raceBuild {
			// a race report fails the (sub)test it is found in; the marker lets the orchestrator attribute it
			fmt.Fprintf(os.Stderr, "VERIF-SEED %d\n", seed)
			t.Run(fmt.Sprint(seed), func(t *testing.T) { res = RunOnce(t, sc, NewSearchTape(seed), false) })
			if res == nil {
				continue
			}
		} else {
			res = RunOnce(t, sc, NewSearchTape(seed), false)
		}
		res.Seed = seed
		out.Runs++
		out.Steps += int64(res.Stats.Steps)
		out.SimSeconds += res.Stats.SimTime.Seconds()
		out.Accepted += res.Stats.Accepted
		out.Started += res.Stats.Started
		for k, v := range res.Stats.Faults {
			out.Faults[k] += v
		}
		for k, v := range res.Stats.Probes {
			out.Probes[k] += v
		}
		for _, s := range res.Stats.Inconclusive {
			out.Inconclusive[s]++
		}
		if res.Stats.Leak {
			out.Leaks++
		}
		if res.Err != "" {
			out.Errors = append(out.Errors, fmt.Sprintf("seed %d: %s", seed, res.Err))
		}
		for a := range res.Stats.AbstractSeen {
			abstract[a] = true
		}
		for name, set := range res.Stats.Sets {
			if sets[name] == nil {
				sets[name] = map[string]bool{}
			}
			for it := range set {
				sets[name][it] = true
			}
		}
		if nontrivial(job.Property, &res.Stats) {
			hashes[res.Hash] = true
			if len(out.Samples) < 2 {
				r2 := RunOnce(t, sc, NewReplayTape(res.Tape), true)
				head := r2.Trace
				if len(head) > 40 {
					head = head[:40]
				}
				out.Samples = append(out.Samples, Sample{Seed: seed, Scenario: sc, Tape: res.Tape, Steps: res.Stats.Steps, Trace: head})
			}
		}
		for _, v := range res.Violations {
			if v.Prop != job.Property {
				out.OtherProps[v.Key()]++
				continue
			}
			if seenRule[v.Key()] && len(out.Violations) >= maxViol {
				continue
			}
			if len(out.Violations) >= 4*maxViol {
				continue
			}
			seenRule[v.Key()] = true
			fv := FoundViolation{Seed: seed, V: v, OrigTape: len(res.Tape), OrigOps: opsCount(sc)}
			msc, mtape, runs := sc, res.Tape, 0
			if !job.NoMin {
				msc, mtape, runs = Minimise(t, sc, res.Tape, v.Prop, v.Rule, job.MinBudget)
			}
			fv.MinRuns = runs
			fv.MinTape = len(mtape)
			fv.MinOps = opsCount(msc)
			final := RunOnce(t, msc, NewReplayTape(mtape), true)
			fv.Reproduce = final.Has(v.Prop, v.Rule)
			msg := v.Msg
			if fv2 := final.First(v.Prop); fv2 != nil && fv2.Rule == v.Rule {
				msg = fv2.Msg
			}
			rf := &ReplayFile{Property: v.Prop, Rule: v.Rule, Message: msg, Seed: seed, Engine: "A", Scenario: msc, Tape: mtape,
				Choices: final.Choices, TraceHash: final.Hash, Trace: final.Trace}
			path := filepath.Join(job.ReplayDir, fmt.Sprintf("%s-%s-%d.json", v.Prop, v.Rule, seed))
			_ = os.MkdirAll(job.ReplayDir, 0o755)
			if err := WriteReplay(path, rf); err != nil {
				out.Errors = append(out.Errors, err.Error())
			}
			fv.Replay = path
			out.Violations = append(out.Violations, fv)
		}
	}
	out.Hashes, out.Abstract = keys(hashes), keys(abstract)
	out.Sets = map[string][]string{}
	for name, set := range sets {
		out.Sets[name] = keys(set)
	}
	out.WallS = time.Since(t0).Seconds()
	b, _ := json.Marshal(out)
	if job.Out != "" {
		if err := os.WriteFile(job.Out, b, 0o644); err != nil {
			t.Fatal(err)
		}
	} else {
		fmt.Println(string(b))
	}
}

// ProbeSpec: one (scenario, tape) execution in its own process.
type ProbeSpec struct {
	Scenario *Scenario `json:"scenario"`
	Tape     []uint32  `json:"tape"`
}

type ProbeOut struct {
	Violations []Violation `json:"violations"`
	Hash       string      `json:"hash"`
	Trace      []string    `json:"trace"`
	Choices    []string    `json:"choices"`
	Tape       []uint32    `json:"tape"`
	Leak       bool        `json:"leak"`
}

// TestProbe runs the execution described by the file $VERIF_PROBE (a ProbeSpec
// or a ReplayFile: both carry scenario and tape), flushing progress to
// $VERIF_CRASHLOG after every step, and writes a ProbeOut to $VERIF_PROBE_OUT.
// If system code panics the process dies; the crash log then says how far it got.
func TestProbe(t *testing.T) {
	path := os.Getenv("VERIF_PROBE")
	if path == "" {
		t.Skip("VERIF_PROBE not set")
	}
	log.SetHandler(discard.Default)
	startWatchdog("")
	primeSignals()
	b, err := os.ReadFile(path)
	if err != nil {
		t.Fatal(err)
	}
	var spec ProbeSpec
	if err := json.Unmarshal(b, &spec); err != nil {
		t.Fatal(err)
	}
	var tape *Tape
	if os.Getenv("VERIF_PROBE_SEARCHSEED") != "" {
		var seed uint64
		fmt.Sscan(os.Getenv("VERIF_PROBE_SEARCHSEED"), &seed)
		tape = NewSearchTape(seed)
	} else {
		tape = NewReplayTape(spec.Tape)
	}
	res := RunOnceLogged(t, spec.Scenario, tape, true, os.Getenv("VERIF_CRASHLOG"))
	out := ProbeOut{Violations: res.Violations, Hash: res.Hash, Trace: res.Trace, Choices: res.Choices, Tape: res.Tape, Leak: res.Stats.Leak}
	ob, _ := json.Marshal(out)
	if p := os.Getenv("VERIF_PROBE_OUT"); p != "" {
		_ = os.WriteFile(p, ob, 0o644)
	} else {
		fmt.Println(string(ob))
	}
}

// TestGenScenario prints the scenario generated for $VERIF_SEED under $VERIF_PROFILE.
func TestGenScenario(t *testing.T) {
	if os.Getenv("VERIF_GEN") == "" {
		t.Skip()
	}
	var seed uint64
	fmt.Sscan(os.Getenv("VERIF_SEED"), &seed)
	sc := Generate(seed, os.Getenv("VERIF_PROFILE"), seed%2 == 1)
	b, _ := json.Marshal(ProbeSpec{Scenario: sc})
	fmt.Println(string(b))
}


func keys(m map[string]bool) []string {
	r := make([]string, 0, len(m))
	for k := range m {
		r = append(r, k)
	}
	sort.Strings(r)
	return r
}

func panicSignature(stderr string) string { return sig.Any(stderr) }

// probeChild runs one (scenario, tape) in a child process of this test binary.
func probeChildText(dir string, n int, sc *Scenario, tape []uint32, searchSeed *uint64) (viol []Violation, sig string, rec *CrashRecord, po *ProbeOut, text string) {
	Heartbeat.Add(1) // the parent is alive while it waits for its children
	spec := filepath.Join(dir, fmt.Sprintf("probe%d.json", n))
	b, _ := json.Marshal(ProbeSpec{Scenario: sc, Tape: tape})
	_ = os.WriteFile(spec, b, 0o644)
	outp, cl := spec+".out", spec+".crashlog"
	defer os.Remove(spec)
	defer os.Remove(outp)
	defer os.Remove(cl)
	cmd := exec.Command(os.Args[0], "-test.run", "^TestProbe$", "-test.timeout", "0")
	cmd.Env = append(os.Environ(), "VERIF_PROBE="+spec, "VERIF_PROBE_OUT="+outp, "VERIF_CRASHLOG="+cl, "VERIF_JOB=")
	if searchSeed != nil {
		cmd.Env = append(cmd.Env, fmt.Sprintf("VERIF_PROBE_SEARCHSEED=%d", *searchSeed))
	}
	var stderr strings.Builder
	cmd.Stderr = &stderr
	cmd.Stdout = &stderr
	_ = cmd.Run()
	text = stderr.String()
	sig = panicSignature(text)
	if ob, err := os.ReadFile(outp); err == nil {
		po = &ProbeOut{}
		_ = json.Unmarshal(ob, po)
		viol = po.Violations
	}
	if cb, err := os.ReadFile(cl); err == nil {
		rec = &CrashRecord{}
		_ = json.Unmarshal(cb, rec)
		if po == nil {
			viol = rec.Violations
		}
	}
	return
}

// captureStderr runs f with file descriptor 2 redirected to a file and returns
// what was written (the race detector writes its reports straight to fd 2).
func captureStderr(dir string, f func()) string {
	tmp, err := os.CreateTemp(dir, "stderr-")
	if err != nil {
		f()
		return ""
	}
	defer os.Remove(tmp.Name())
	defer tmp.Close()
	saved, err := syscall.Dup(2)
	if err != nil {
		f()
		return ""
	}
	_ = syscall.Dup2(int(tmp.Fd()), 2)
	func() {
		defer func() {
			_ = syscall.Dup2(saved, 2)
			_ = syscall.Close(saved)
		}()
		f()
	}()
	b, _ := os.ReadFile(tmp.Name())
	return string(b)
}

func contains1(xs []string, x string) bool {
	for _, y := range xs {
		if y == x {
			return true
		}
	}
	return false
}

// workerCrash analyses a seed whose run killed the worker process or made the
// race detector speak (DESIGN §4, "Panics and fatal errors in system code").
func workerCrash(t *testing.T, job *WorkerJob) {
	seed := *job.OnlySeed
	out := &WorkerOut{Faults: map[string]int{}, Probes: map[string]int{}, OtherProps: map[string]int{}, Inconclusive: map[string]int{}}
	finish := func() {
		b, _ := json.Marshal(out)
		_ = os.WriteFile(job.Out, b, 0o644)
	}
	dir, _ := os.MkdirTemp(filepath.Dir(job.Out), "crash-")
	defer os.RemoveAll(dir)
	sc := Generate(seed, job.Profile, seed%2 == 1)
	want := os.Getenv("VERIF_PANIC_SIG")
	inProc := raceBuild && strings.HasPrefix(want, "DATA RACE")
	n := 0
	// probe: one execution, in a child process (it may die) or, for race reports, in this process with stderr captured
	type probeRes struct {
		viol    []Violation
		sigs    []string
		tape    []uint32
		trace   []string
		choices []string
		hash    string
		step    int
	}
	probe := func(s *Scenario, tp []uint32, searchSeed *uint64) probeRes {
		n++
		Heartbeat.Add(1)
		if inProc {
			var res *RunResult
			cl := filepath.Join(dir, "inproc.crashlog")
			_ = os.Remove(cl)
			text := captureStderr(dir, func() {
				t.Run(fmt.Sprintf("probe%d", n), func(t *testing.T) {
					tape := NewReplayTape(tp)
					if searchSeed != nil {
						tape = NewSearchTape(*searchSeed)
					}
					// a race report makes the testing package end this subtest before RunOnce returns:
					// what the run did is then taken from the crash log
					res = RunOnceLogged(t, s, tape, true, cl)
				})
			})
			pr := probeRes{sigs: sig.All(text)}
			if res != nil {
				pr.viol, pr.tape, pr.trace, pr.choices, pr.hash, pr.step = res.Violations, res.Tape, res.Trace, res.Choices, res.Hash, res.Stats.Steps
			} else if cb, err := os.ReadFile(cl); err == nil {
				var rec CrashRecord
				if json.Unmarshal(cb, &rec) == nil {
					pr.viol, pr.tape, pr.trace, pr.choices, pr.step = rec.Violations, rec.Tape, rec.Trace, rec.Choices, rec.Step
					if pr.tape == nil {
						pr.tape = []uint32{}
					}
				}
			}
			return pr
		}
		viol, _, rec, po, text := probeChildText(dir, n, s, tp, searchSeed)
		pr := probeRes{viol: viol, sigs: sig.All(text)}
		if po != nil {
			pr.tape, pr.trace, pr.choices, pr.hash = po.Tape, po.Trace, po.Choices, po.Hash
		} else if rec != nil {
			pr.tape, pr.trace, pr.choices, pr.step = rec.Tape, rec.Trace, rec.Choices, rec.Step
		}
		return pr
	}
	first := probe(sc, nil, &seed)
	if len(first.sigs) == 0 || first.tape == nil {
		out.Errors = append(out.Errors, fmt.Sprintf("seed %d did not fail again when run alone", seed))
		finish()
		return
	}
	sg := first.sigs[0]
	if want != "" && contains1(first.sigs, want) {
		sg = want
	}
	// what does the run violate? a violation the monitors flagged before the process died takes precedence
	target := Violation{}
	for _, v := range first.viol {
		if v.Prop == job.Property {
			target = v
			break
		}
	}
	if target.Prop == "" {
		if os.Getenv("VERIF_PANIC_IS_VIOLATION") == "" {
			out.OtherProps["panic"]++
			finish()
			return
		}
		target = Violation{Prop: job.Property, Rule: "panic", Msg: "system code panics and takes the whole runner down (all other jobs are lost): " + sg, Step: first.step}
		if strings.HasPrefix(sg, "DATA RACE") {
			target = Violation{Prop: job.Property, Rule: "race", Msg: "two conflicting memory accesses are not ordered by the program's own synchronisation (reported on a fully serialised, replayable schedule): " + sg, Step: first.step}
		}
	}
	bySig := target.Rule == "panic" || target.Rule == "race"
	fails := func(s *Scenario, tp []uint32) bool {
		pr := probe(s, tp, nil)
		if bySig {
			return contains1(pr.sigs, sg)
		}
		for _, v := range pr.viol {
			if v.Prop == target.Prop && v.Rule == target.Rule {
				return true
			}
		}
		return false
	}
	tape := first.tape
	msc, mtape, runs := MinimiseWith(fails, sc, tape, job.MinBudget)
	if bySig {
		// the replay must speak for itself in a fresh process (which is how it will be replayed): the detector's
		// bounded access history makes the exact pair it reports depend a little on what ran before in the process
		verify := func(s *Scenario, tp []uint32) (string, bool) {
			for attempt := 0; attempt < 2; attempt++ {
				n++
				_, _, _, _, text := probeChildText(dir, n, s, tp, nil)
				sigs := sig.All(text)
				if contains1(sigs, sg) {
					return sg, true
				}
				for _, x := range sigs {
					if strings.HasPrefix(x, "DATA RACE") == strings.HasPrefix(sg, "DATA RACE") {
						return x, true // same kind of failure on the same schedule, reported for another pair of accesses
					}
				}
			}
			return "", false
		}
		got, ok := verify(msc, mtape)
		if !ok {
			msc, mtape = sc, tape
			got, ok = verify(msc, mtape)
		}
		if !ok {
			out.Inconclusive["race report not reproducible in a fresh process"]++
			finish()
			return
		}
		if got != sg {
			sg = got
			target.Msg = strings.Replace(target.Msg, first.sigs[0], sg, 1)
		}
	}
	inProc = false // the final run for the replay file is taken from a fresh process as well
	final := probe(msc, mtape, nil)
	rf := &ReplayFile{Property: target.Prop, Rule: target.Rule, Message: target.Msg, Seed: seed, Engine: "A", Scenario: msc, Tape: mtape,
		Note: "what the process prints for this execution: " + sg, Trace: final.trace, Choices: final.choices, TraceHash: final.hash}
	if bySig {
		rf.PanicSig = sg
	}
	h := sha256.Sum256([]byte(sg))
	path := filepath.Join(job.ReplayDir, fmt.Sprintf("%s-%s-%d-%s.json", target.Prop, target.Rule, seed, hex.EncodeToString(h[:3])))
	_ = os.MkdirAll(job.ReplayDir, 0o755)
	_ = WriteReplay(path, rf)
	out.Violations = append(out.Violations, FoundViolation{Seed: seed, V: target, Replay: path, OrigTape: len(tape), MinTape: len(mtape),
		OrigOps: opsCount(sc), MinOps: opsCount(msc), MinRuns: runs, Reproduce: !bySig || contains1(final.sigs, sg)})
	finish()
}


// primeSignals starts the os/signal loop goroutine outside any bubble (the reload loop of the
// binary registers for SIGUSR1 from inside one).
func primeSignals() {
	c := make(chan os.Signal, 1)
	signal.Notify(c, syscall.SIGUSR2)
	signal.Stop(c)
}
