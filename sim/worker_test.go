package sim

import (
	"encoding/json"
	"fmt"
	"os"
	"os/exec"
	"path/filepath"
	"regexp"
	"sort"
	"strings"
	"testing"
	"time"

	"github.com/apex/log"
	"github.com/apex/log/handlers/discard"
)

// WorkerJob is passed in the environment variable VERIF_JOB by the orchestrator.
type WorkerJob struct {
	Mode      string  `json:"mode"` // search | replay | dump
	Property  string  `json:"property"`
	Profile   string  `json:"profile"`
	SeedBase  uint64  `json:"seed_base"`
	Worker    int     `json:"worker"`
	Workers   int     `json:"workers"`
	MaxRuns   int     `json:"max_runs"`
	DeadlineS float64 `json:"deadline_s"`
	Replay    string  `json:"replay,omitempty"`
	Out       string  `json:"out"`
	ReplayDir string  `json:"replay_dir"`
	MinBudget int     `json:"min_budget"`
	OnlySeed  *uint64 `json:"only_seed,omitempty"`
	StartK    int     `json:"start_k,omitempty"`
	NoMin     bool    `json:"no_min,omitempty"`
	MaxViol   int     `json:"max_viol,omitempty"`
}

type FoundViolation struct {
	Seed      uint64    `json:"seed"`
	V         Violation `json:"violation"`
	Replay    string    `json:"replay"`
	OrigTape  int       `json:"orig_tape_len"`
	MinTape   int       `json:"min_tape_len"`
	OrigOps   int       `json:"orig_ops"`
	MinOps    int       `json:"min_ops"`
	MinRuns   int       `json:"min_runs"`
	Reproduce bool      `json:"reproduced_in_process"`
}

type Sample struct {
	Seed     uint64    `json:"seed"`
	Scenario *Scenario `json:"scenario"`
	Tape     []uint32  `json:"tape"`
	Steps    int       `json:"steps"`
	Trace    []string  `json:"trace_head,omitempty"`
}

type WorkerOut struct {
	Runs         int              `json:"runs"`
	Steps        int64            `json:"steps"`
	SimSeconds   float64          `json:"sim_seconds"`
	WallS        float64          `json:"wall_s"`
	Faults       map[string]int   `json:"faults"`
	Probes       map[string]int   `json:"probes"`
	Hashes       []string         `json:"hashes"` // distinct trace hashes of non-trivial runs
	Abstract     []string         `json:"abstract"`
	Samples      []Sample         `json:"samples"`
	Violations   []FoundViolation `json:"violations"`
	OtherProps   map[string]int   `json:"other_props"`
	Inconclusive map[string]int   `json:"inconclusive"`
	Leaks        int              `json:"leaks"`
	Accepted     int              `json:"accepted"`
	Started      int              `json:"started"`
	Errors       []string         `json:"errors,omitempty"`
	SeedsFirst   uint64           `json:"seed_first"`
	SeedsLast    uint64           `json:"seed_last"`
}

// nontrivialProbes: a run counts as non-trivial for a property if it reached
// at least one of these probes (prefix match).
var nontrivialProbes = map[string][]string{
	"C01": {"dequeue_start"},
	"C02": {"multi_task_job_ran"},
	"C03": {"cancel_waiting", "settled_with_waiting", "dequeue_start", "reload_while_queued"},
	"C04": {"cancel_"},
	"C05": {"admission:replace", "admission:append", "admission:queuefull", "admission:noqueue"},
	"C06": {"dequeue_start"},
	"C07": {"delayed_job_started", "replace_with_waiting"},
	"C08": {"failfast_failure", "continue_after_failure"},
	"C09": {"save_ok", "save_failed"},
	"C10": {"restart_with_"},
	"C11": {"shutdown_", "persist_liveness_checked"},
	"C12": {"retention_removed_jobs", "purge_undefined_pipeline"},
	"C15": {"schedulable_probe", "http_list"},
	"C16": {"reload_while_queued", "reload_while_running"},
}

func nontrivial(prop string, st *Stats) bool {
	pre, ok := nontrivialProbes[prop]
	if !ok {
		return st.Started > 0
	}
	for k := range st.Probes {
		for _, p := range pre {
			if strings.HasPrefix(k, p) {
				return true
			}
		}
	}
	return false
}

func opsCount(sc *Scenario) int {
	n := 0
	for _, c := range sc.Clients {
		n += len(c)
	}
	return n
}

func startWatchdog(out string) {
	go func() {
		last := Heartbeat.Load()
		lastChange := time.Now()
		for {
			time.Sleep(2 * time.Second)
			if v := Heartbeat.Load(); v != last {
				last, lastChange = v, time.Now()
			} else if time.Since(lastChange) > 90*time.Second {
				fmt.Fprintln(os.Stderr, "WATCHDOG: no simulator step for 90s; giving up (harness trouble, not a violation)")
				os.Exit(3)
			}
		}
	}()
}

func TestWorker(t *testing.T) {
	spec := os.Getenv("VERIF_JOB")
	if spec == "" {
		t.Skip("VERIF_JOB not set")
	}
	var job WorkerJob
	if err := json.Unmarshal([]byte(spec), &job); err != nil {
		t.Fatalf("bad VERIF_JOB: %v", err)
	}
	log.SetHandler(discard.Default)
	startWatchdog(job.Out)
	switch job.Mode {
	case "replay":
		workerReplay(t, &job)
	case "crash":
		workerCrash(t, &job)
	case "hashes":
		res := map[string]string{}
		for k := 0; k < job.MaxRuns; k++ {
			seed := job.SeedBase + uint64(k)
			sc := Generate(seed, job.Profile, seed%2 == 1)
			td := os.Getenv("VERIF_TRACE_DIR")
			r := RunOnce(t, sc, NewSearchTape(seed), td != "")
			if td != "" {
				_ = os.WriteFile(filepath.Join(td, fmt.Sprintf("%d-%s-%d.txt", seed, r.Hash, os.Getpid())), []byte(strings.Join(r.Trace, "\n")), 0o644)
			}
			res[fmt.Sprint(seed)] = fmt.Sprintf("%s/%d/%d", r.Hash, r.Stats.Steps, len(r.Violations))
		}
		b, _ := json.Marshal(res)
		_ = os.WriteFile(job.Out, b, 0o644)
	case "dump":
		sc := Generate(*job.OnlySeed, job.Profile, *job.OnlySeed%2 == 1)
		res := RunOnce(t, sc, NewSearchTape(*job.OnlySeed), true)
		b, _ := json.MarshalIndent(res, "", " ")
		fmt.Println(string(b))
	default:
		workerSearch(t, &job)
	}
}

func workerReplay(t *testing.T, job *WorkerJob) {
	rf, err := ReadReplay(job.Replay)
	if err != nil {
		t.Fatalf("reading replay: %v", err)
	}
	res := RunOnce(t, rf.Scenario, NewReplayTape(rf.Tape), true)
	out := map[string]interface{}{
		"reproduced": res.Has(rf.Property, rf.Rule),
		"hash_match": res.Hash == rf.TraceHash,
		"hash":       res.Hash,
		"violations": res.Violations,
		"trace":      res.Trace,
	}
	b, _ := json.MarshalIndent(out, "", " ")
	if job.Out != "" {
		_ = os.WriteFile(job.Out, b, 0o644)
	} else {
		fmt.Println(string(b))
	}
}

func workerSearch(t *testing.T, job *WorkerJob) {
	t0 := time.Now()
	out := &WorkerOut{Faults: map[string]int{}, Probes: map[string]int{}, OtherProps: map[string]int{}, Inconclusive: map[string]int{}}
	hashes := map[string]bool{}
	abstract := map[string]bool{}
	deadline := t0.Add(time.Duration(job.DeadlineS * float64(time.Second)))
	seenRule := map[string]bool{}
	maxViol := job.MaxViol
	if maxViol == 0 {
		maxViol = 4
	}
	first := true
	lastPartial := time.Now()
	for k := job.StartK; job.MaxRuns == 0 || k < job.StartK+job.MaxRuns; k++ {
		if job.DeadlineS > 0 && time.Now().After(deadline) {
			break
		}
		seed := job.SeedBase + uint64(job.Worker) + uint64(k)*uint64(job.Workers)
		if job.OnlySeed != nil {
			if k > job.StartK {
				break
			}
			seed = *job.OnlySeed
		}
		if first {
			out.SeedsFirst = seed
			first = false
		}
		out.SeedsLast = seed
		if job.Out != "" {
			_ = os.WriteFile(job.Out+".progress", []byte(fmt.Sprintf("%d %d", seed, k)), 0o644)
			if time.Since(lastPartial) > 2*time.Second {
				// what has been covered so far survives a run that kills the process
				lastPartial = time.Now()
				snap := *out
				snap.Hashes, snap.Abstract = keys(hashes), keys(abstract)
				snap.WallS = time.Since(t0).Seconds()
				pb, _ := json.Marshal(&snap)
				_ = os.WriteFile(job.Out+".partial", pb, 0o644)
			}
		}
		faults := seed%2 == 1
		sc := Generate(seed, job.Profile, faults)
		res := RunOnce(t, sc, NewSearchTape(seed), false)
		res.Seed = seed
		out.Runs++
		out.Steps += int64(res.Stats.Steps)
		out.SimSeconds += res.Stats.SimTime.Seconds()
		out.Accepted += res.Stats.Accepted
		out.Started += res.Stats.Started
		for k, v := range res.Stats.Faults {
			out.Faults[k] += v
		}
		for k, v := range res.Stats.Probes {
			out.Probes[k] += v
		}
		for _, s := range res.Stats.Inconclusive {
			out.Inconclusive[s]++
		}
		if res.Stats.Leak {
			out.Leaks++
		}
		if res.Err != "" {
			out.Errors = append(out.Errors, fmt.Sprintf("seed %d: %s", seed, res.Err))
		}
		for a := range res.Stats.AbstractSeen {
			abstract[a] = true
		}
		if nontrivial(job.Property, &res.Stats) {
			hashes[res.Hash] = true
			if len(out.Samples) < 2 {
				r2 := RunOnce(t, sc, NewReplayTape(res.Tape), true)
				head := r2.Trace
				if len(head) > 40 {
					head = head[:40]
				}
				out.Samples = append(out.Samples, Sample{Seed: seed, Scenario: sc, Tape: res.Tape, Steps: res.Stats.Steps, Trace: head})
			}
		}
		for _, v := range res.Violations {
			if v.Prop != job.Property {
				out.OtherProps[v.Key()]++
				continue
			}
			if seenRule[v.Key()] && len(out.Violations) >= maxViol {
				continue
			}
			if len(out.Violations) >= 4*maxViol {
				continue
			}
			seenRule[v.Key()] = true
			fv := FoundViolation{Seed: seed, V: v, OrigTape: len(res.Tape), OrigOps: opsCount(sc)}
			msc, mtape, runs := sc, res.Tape, 0
			if !job.NoMin {
				msc, mtape, runs = Minimise(t, sc, res.Tape, v.Prop, v.Rule, job.MinBudget)
			}
			fv.MinRuns = runs
			fv.MinTape = len(mtape)
			fv.MinOps = opsCount(msc)
			final := RunOnce(t, msc, NewReplayTape(mtape), true)
			fv.Reproduce = final.Has(v.Prop, v.Rule)
			msg := v.Msg
			if fv2 := final.First(v.Prop); fv2 != nil && fv2.Rule == v.Rule {
				msg = fv2.Msg
			}
			rf := &ReplayFile{Property: v.Prop, Rule: v.Rule, Message: msg, Seed: seed, Engine: "A", Scenario: msc, Tape: mtape,
				Choices: final.Choices, TraceHash: final.Hash, Trace: final.Trace}
			path := filepath.Join(job.ReplayDir, fmt.Sprintf("%s-%s-%d.json", v.Prop, v.Rule, seed))
			_ = os.MkdirAll(job.ReplayDir, 0o755)
			if err := WriteReplay(path, rf); err != nil {
				out.Errors = append(out.Errors, err.Error())
			}
			fv.Replay = path
			out.Violations = append(out.Violations, fv)
		}
	}
	out.Hashes, out.Abstract = keys(hashes), keys(abstract)
	out.WallS = time.Since(t0).Seconds()
	b, _ := json.Marshal(out)
	if job.Out != "" {
		if err := os.WriteFile(job.Out, b, 0o644); err != nil {
			t.Fatal(err)
		}
	} else {
		fmt.Println(string(b))
	}
}

// ProbeSpec: one (scenario, tape) execution in its own process.
type ProbeSpec struct {
	Scenario *Scenario `json:"scenario"`
	Tape     []uint32  `json:"tape"`
}

type ProbeOut struct {
	Violations []Violation `json:"violations"`
	Hash       string      `json:"hash"`
	Trace      []string    `json:"trace"`
	Choices    []string    `json:"choices"`
	Tape       []uint32    `json:"tape"`
	Leak       bool        `json:"leak"`
}

// TestProbe runs the execution described by the file $VERIF_PROBE (a ProbeSpec
// or a ReplayFile: both carry scenario and tape), flushing progress to
// $VERIF_CRASHLOG after every step, and writes a ProbeOut to $VERIF_PROBE_OUT.
// If system code panics the process dies; the crash log then says how far it got.
func TestProbe(t *testing.T) {
	path := os.Getenv("VERIF_PROBE")
	if path == "" {
		t.Skip("VERIF_PROBE not set")
	}
	log.SetHandler(discard.Default)
	startWatchdog("")
	b, err := os.ReadFile(path)
	if err != nil {
		t.Fatal(err)
	}
	var spec ProbeSpec
	if err := json.Unmarshal(b, &spec); err != nil {
		t.Fatal(err)
	}
	var tape *Tape
	if os.Getenv("VERIF_PROBE_SEARCHSEED") != "" {
		var seed uint64
		fmt.Sscan(os.Getenv("VERIF_PROBE_SEARCHSEED"), &seed)
		tape = NewSearchTape(seed)
	} else {
		tape = NewReplayTape(spec.Tape)
	}
	res := RunOnceLogged(t, spec.Scenario, tape, true, os.Getenv("VERIF_CRASHLOG"))
	out := ProbeOut{Violations: res.Violations, Hash: res.Hash, Trace: res.Trace, Choices: res.Choices, Tape: res.Tape, Leak: res.Stats.Leak}
	ob, _ := json.Marshal(out)
	if p := os.Getenv("VERIF_PROBE_OUT"); p != "" {
		_ = os.WriteFile(p, ob, 0o644)
	} else {
		fmt.Println(string(ob))
	}
}

// TestGenScenario prints the scenario generated for $VERIF_SEED under $VERIF_PROFILE.
func TestGenScenario(t *testing.T) {
	if os.Getenv("VERIF_GEN") == "" {
		t.Skip()
	}
	var seed uint64
	fmt.Sscan(os.Getenv("VERIF_SEED"), &seed)
	sc := Generate(seed, os.Getenv("VERIF_PROFILE"), seed%2 == 1)
	b, _ := json.Marshal(ProbeSpec{Scenario: sc})
	fmt.Println(string(b))
}


func keys(m map[string]bool) []string {
	r := make([]string, 0, len(m))
	for k := range m {
		r = append(r, k)
	}
	sort.Strings(r)
	return r
}

var frameRe = regexp.MustCompile(`(?m)^(github\.com/Flowpack/prunner[^\s(]*)`)
var addrRe = regexp.MustCompile(`0x[0-9a-f]+`)

// panicSignature must stay identical to the function of the same name in cmd/verifctl.
func panicSignature(stderr string) string {
	idx := strings.Index(stderr, "panic: ")
	if i := strings.Index(stderr, "fatal error: "); i >= 0 && (idx < 0 || i < idx) {
		idx = i
	}
	if idx < 0 {
		return ""
	}
	rest := stderr[idx:]
	first := rest
	if i := strings.Index(rest, "\n"); i >= 0 {
		first = rest[:i]
	}
	first = addrRe.ReplaceAllString(first, "0x?")
	frames := frameRe.FindAllString(rest, 3)
	return first + " @ " + strings.Join(frames, " < ")
}

// probeChild runs one (scenario, tape) in a child process of this test binary.
func probeChild(dir string, n int, sc *Scenario, tape []uint32, searchSeed *uint64) (viol []Violation, sig string, rec *CrashRecord, po *ProbeOut) {
	spec := filepath.Join(dir, fmt.Sprintf("probe%d.json", n))
	b, _ := json.Marshal(ProbeSpec{Scenario: sc, Tape: tape})
	_ = os.WriteFile(spec, b, 0o644)
	outp, cl := spec+".out", spec+".crashlog"
	defer os.Remove(spec)
	defer os.Remove(outp)
	defer os.Remove(cl)
	cmd := exec.Command(os.Args[0], "-test.run", "^TestProbe$", "-test.timeout", "0")
	cmd.Env = append(os.Environ(), "VERIF_PROBE="+spec, "VERIF_PROBE_OUT="+outp, "VERIF_CRASHLOG="+cl, "VERIF_JOB=")
	if searchSeed != nil {
		cmd.Env = append(cmd.Env, fmt.Sprintf("VERIF_PROBE_SEARCHSEED=%d", *searchSeed))
	}
	var stderr strings.Builder
	cmd.Stderr = &stderr
	cmd.Stdout = &stderr
	_ = cmd.Run()
	sig = panicSignature(stderr.String())
	if ob, err := os.ReadFile(outp); err == nil {
		po = &ProbeOut{}
		_ = json.Unmarshal(ob, po)
		viol = po.Violations
	}
	if cb, err := os.ReadFile(cl); err == nil {
		rec = &CrashRecord{}
		_ = json.Unmarshal(cb, rec)
		if po == nil {
			viol = rec.Violations
		}
	}
	return
}

// workerCrash analyses a seed whose run killed the worker process (DESIGN §4,
// "Panics and fatal errors in system code").
func workerCrash(t *testing.T, job *WorkerJob) {
	seed := *job.OnlySeed
	out := &WorkerOut{Faults: map[string]int{}, Probes: map[string]int{}, OtherProps: map[string]int{}, Inconclusive: map[string]int{}}
	dir, _ := os.MkdirTemp(filepath.Dir(job.Out), "crash-")
	defer os.RemoveAll(dir)
	sc := Generate(seed, job.Profile, seed%2 == 1)
	n := 0
	viol, sig, rec, _ := probeChild(dir, n, sc, nil, &seed)
	if sig == "" || rec == nil {
		out.Errors = append(out.Errors, fmt.Sprintf("seed %d did not crash again when run alone", seed))
		b, _ := json.Marshal(out)
		_ = os.WriteFile(job.Out, b, 0o644)
		return
	}
	// what does the run violate? a violation the monitors flagged before the process died takes precedence
	target := Violation{}
	for _, v := range viol {
		if v.Prop == job.Property {
			target = v
			break
		}
	}
	if target.Prop == "" {
		if os.Getenv("VERIF_PANIC_IS_VIOLATION") == "" {
			out.OtherProps["panic"]++
			b, _ := json.Marshal(out)
			_ = os.WriteFile(job.Out, b, 0o644)
			return
		}
		target = Violation{Prop: job.Property, Rule: "panic", Msg: "system code panics and takes the whole runner down (all other jobs are lost): " + sig, Step: rec.Step}
	}
	fails := func(s *Scenario, tp []uint32) bool {
		n++
		v2, sig2, _, _ := probeChild(dir, n, s, tp, nil)
		if target.Rule == "panic" {
			return sig2 == sig
		}
		for _, v := range v2 {
			if v.Prop == target.Prop && v.Rule == target.Rule {
				return true
			}
		}
		return false
	}
	tape := rec.Tape
	msc, mtape, runs := MinimiseWith(fails, sc, tape, job.MinBudget)
	_, fsig, frec, fpo := probeChild(dir, n+1, msc, mtape, nil)
	rf := &ReplayFile{Property: target.Prop, Rule: target.Rule, Message: target.Msg, Seed: seed, Engine: "A", Scenario: msc, Tape: mtape,
		Note: "this execution ends with a panic in system code: " + sig}
	if target.Rule == "panic" {
		rf.PanicSig = sig
	}
	if fpo != nil {
		rf.Trace, rf.Choices, rf.TraceHash = fpo.Trace, fpo.Choices, fpo.Hash
	} else if frec != nil {
		rf.Trace, rf.Choices = frec.Trace, frec.Choices
	}
	path := filepath.Join(job.ReplayDir, fmt.Sprintf("%s-%s-%d.json", target.Prop, target.Rule, seed))
	_ = os.MkdirAll(job.ReplayDir, 0o755)
	_ = WriteReplay(path, rf)
	out.Violations = append(out.Violations, FoundViolation{Seed: seed, V: target, Replay: path, OrigTape: len(tape), MinTape: len(mtape),
		OrigOps: opsCount(sc), MinOps: opsCount(msc), MinRuns: runs, Reproduce: target.Rule != "panic" || fsig == sig})
	b, _ := json.Marshal(out)
	_ = os.WriteFile(job.Out, b, 0o644)
}
