package sim

import (
	"context"
	"encoding/json"
	"flag"
	"fmt"
	"math/rand/v2"
	"os"
	"path/filepath"
	"reflect"
	"sort"
	"strings"
	"testing/synctest"
	"time"

	"github.com/urfave/cli/v2"
	"gopkg.in/yaml.v2"

	"github.com/Flowpack/prunner"
	"github.com/Flowpack/prunner/app"
	"github.com/Flowpack/prunner/definition"
	"github.com/Flowpack/prunner/taskctl"
	"github.com/Flowpack/prunner/verifhook"
)

// Engine for C17 (DESIGN §5): the real reload loop of the binary
// (app.handleDefinitionChanges in watch mode, ticker on the fake clock) next to
// an editor that rewrites real YAML files. The definitions the editor works on
// are real definition.PipelinesDef values; single-field edits are chosen by
// reflection over the exported fields, so fields added later are included.

type ReloadScenario struct {
	Seed    uint64 `json:"seed"`
	Files   int    `json:"files"`    // number of pipeline files (1-3), in nested directories
	Pipes   int    `json:"pipes"`    // number of pipelines
	Edits   int    `json:"edits"`    // number of edits the editor makes
	PInval  int    `json:"p_invalid"` // per mille: an edit is an invalid one
	PTorn   int    `json:"p_torn"`    // per mille: an edit is written in two steps (truncate + first half, then the rest)
	Direct  int    `json:"direct_cases"` // number of direct-generation cases for the pure functions (part b)
}

func generateReload(seed uint64) *Scenario {
	g := gen{rand.New(rand.NewPCG(seed, 0x52454c4f4144))}
	rs := &ReloadScenario{Seed: seed, Files: 1 + g.n(3), Pipes: 1 + g.n(3), Edits: 2 + g.n(6), Direct: 20}
	if seed%2 == 1 {
		rs.PInval = 300
		rs.PTorn = 300
	}
	return &Scenario{Profile: "C17", Reload: rs, Cfg: RunConfig{MaxSteps: 200}}
}

// ---------------------------------------------------------------------------
// reflection helpers: YAML field names, field enumeration, single-field mutation

func yamlName(f reflect.StructField) string {
	tag := f.Tag.Get("yaml")
	if tag == "" || tag == "-" {
		return ""
	}
	return strings.Split(tag, ",")[0]
}

// toYAMLValue renders a definition value the way a user would write it.
func toYAMLValue(v reflect.Value) interface{} {
	switch x := v.Interface().(type) {
	case time.Duration:
		return x.String()
	case definition.QueueStrategy:
		if x == definition.QueueStrategyReplace {
			return "replace"
		}
		return "append"
	}
	switch v.Kind() {
	case reflect.Ptr:
		if v.IsNil() {
			return nil
		}
		return toYAMLValue(v.Elem())
	case reflect.Struct:
		m := map[string]interface{}{}
		for i := 0; i < v.NumField(); i++ {
			name := yamlName(v.Type().Field(i))
			if name == "" {
				continue
			}
			fv := v.Field(i)
			if fv.Kind() == reflect.Ptr && fv.IsNil() || (fv.Kind() == reflect.Map || fv.Kind() == reflect.Slice) && fv.IsNil() {
				continue
			}
			m[name] = toYAMLValue(fv)
		}
		return m
	case reflect.Map:
		m := map[string]interface{}{}
		for _, k := range v.MapKeys() {
			m[fmt.Sprint(k.Interface())] = toYAMLValue(v.MapIndex(k))
		}
		return m
	case reflect.Slice:
		var s []interface{}
		for i := 0; i < v.Len(); i++ {
			s = append(s, toYAMLValue(v.Index(i)))
		}
		if s == nil {
			s = []interface{}{}
		}
		return s
	}
	return v.Interface()
}

func renderFile(pipes map[string]definition.PipelineDef) []byte {
	m := map[string]interface{}{}
	for name, p := range pipes {
		m[name] = toYAMLValue(reflect.ValueOf(p))
	}
	b, _ := yaml.Marshal(map[string]interface{}{"pipelines": m})
	return b
}

func cloneDef(p definition.PipelineDef) definition.PipelineDef {
	q := p
	if p.QueueLimit != nil {
		v := *p.QueueLimit
		q.QueueLimit = &v
	}
	if p.Env != nil {
		q.Env = map[string]string{}
		for k, v := range p.Env {
			q.Env[k] = v
		}
	}
	q.Tasks = map[string]definition.TaskDef{}
	for n, t := range p.Tasks {
		u := t
		u.Script = append([]string(nil), t.Script...)
		u.DependsOn = append([]string(nil), t.DependsOn...)
		if t.Env != nil {
			u.Env = map[string]string{}
			for k, v := range t.Env {
				u.Env[k] = v
			}
		}
		q.Tasks[n] = u
	}
	return q
}

// canonDef is an independent, order-insensitive rendering of a pipeline definition (all exported fields).
func canonDef(p definition.PipelineDef) string {
	b, _ := json.Marshal(toCanon(reflect.ValueOf(p)))
	return string(b)
}

func toCanon(v reflect.Value) interface{} {
	switch v.Kind() {
	case reflect.Ptr:
		if v.IsNil() {
			return nil
		}
		return toCanon(v.Elem())
	case reflect.Struct:
		m := map[string]interface{}{}
		for i := 0; i < v.NumField(); i++ {
			if v.Type().Field(i).PkgPath != "" {
				continue
			}
			m[v.Type().Field(i).Name] = toCanon(v.Field(i))
		}
		return m
	case reflect.Map:
		if v.Len() == 0 {
			return nil
		}
		m := map[string]interface{}{}
		for _, k := range v.MapKeys() {
			m[fmt.Sprint(k.Interface())] = toCanon(v.MapIndex(k))
		}
		return m
	case reflect.Slice:
		if v.Len() == 0 {
			return nil
		}
		var s []interface{}
		for i := 0; i < v.Len(); i++ {
			s = append(s, toCanon(v.Index(i)))
		}
		return s
	}
	return v.Interface()
}

// mutateField changes exactly one exported, YAML-visible field of the struct value v (a
// PipelineDef or TaskDef, addressable) and returns a description; "" if nothing could be changed.
// stamp gives a file the modification time of the simulated clock. Without it the files carry real timestamps
// while thirty simulated seconds pass in microseconds: a reload that looks at mtimes would see collisions that
// depend on the real clock (not replayable) and could not happen with thirty real seconds between two polls.
func stamp(path string) {
	now := time.Now()
	_ = os.Chtimes(path, now, now)
}

func writeStamped(path string, content []byte) error {
	err := os.WriteFile(path, content, 0o644)
	stamp(path)
	return err
}

func mutateField(g gen, v reflect.Value, taskNames []string) string {
	var idx []int
	for i := 0; i < v.NumField(); i++ {
		if yamlName(v.Type().Field(i)) != "" {
			idx = append(idx, i)
		}
	}
	for tries := 0; tries < 8; tries++ {
		i := idx[g.n(len(idx))]
		f := v.Field(i)
		name := v.Type().Field(i).Name
		switch x := f.Interface().(type) {
		case time.Duration:
			f.Set(reflect.ValueOf(x + time.Duration(1+g.n(5))*time.Second))
			return name + " changed"
		case definition.QueueStrategy:
			if x == definition.QueueStrategyAppend {
				f.Set(reflect.ValueOf(definition.QueueStrategyReplace))
			} else {
				f.Set(reflect.ValueOf(definition.QueueStrategyAppend))
			}
			return name + " toggled"
		case map[string]string:
			m := map[string]string{}
			for k, val := range x {
				m[k] = val
			}
			keys := make([]string, 0, len(m))
			for k := range m {
				keys = append(keys, k)
			}
			sort.Strings(keys)
			switch {
			case len(keys) > 0 && g.p(400): // rename a key, keeping its value (also the empty value)
				k := keys[g.n(len(keys))]
				val := m[k]
				delete(m, k)
				m[k+"_R"] = val
				f.Set(reflect.ValueOf(m))
				return name + ": key " + k + " renamed"
			case len(keys) > 0 && g.p(400):
				k := keys[g.n(len(keys))]
				m[k] = m[k] + "x"
				f.Set(reflect.ValueOf(m))
				return name + ": value of " + k + " changed"
			case len(keys) > 0 && g.p(300):
				k := keys[g.n(len(keys))]
				delete(m, k)
				if len(m) == 0 {
					m = nil
				}
				f.Set(reflect.ValueOf(m))
				return name + ": key " + k + " removed"
			default:
				m[fmt.Sprintf("K%d", g.n(1000))] = []string{"", "v"}[g.n(2)]
				f.Set(reflect.ValueOf(m))
				return name + ": key added"
			}
		case []string:
			s := append([]string(nil), x...)
			if name == "DependsOn" {
				// stay valid: only existing tasks
				if len(taskNames) == 0 {
					continue
				}
				if len(s) > 0 && g.p(500) {
					s = s[:len(s)-1]
				} else {
					s = append(s, taskNames[g.n(len(taskNames))])
				}
				f.Set(reflect.ValueOf(s))
				return name + " changed"
			}
			switch {
			case len(s) > 1 && g.p(300):
				s[0], s[len(s)-1] = s[len(s)-1], s[0]
				if s[0] == s[len(s)-1] {
					s = append(s, "extra")
				}
			case len(s) > 0 && g.p(500):
				s[g.n(len(s))] += " # edited"
			default:
				s = append(s, fmt.Sprintf("echo %d", g.n(1000)))
			}
			f.Set(reflect.ValueOf(s))
			return name + " changed"
		}
		switch f.Kind() {
		case reflect.Int, reflect.Int64:
			if name == "Concurrency" {
				f.SetInt(f.Int()%3 + 1 + int64(g.n(2))*3)
				return name + " changed"
			}
			f.SetInt(f.Int() + 1 + int64(g.n(3)))
			return name + " changed"
		case reflect.Bool:
			f.SetBool(!f.Bool())
			return name + " flipped"
		case reflect.String:
			f.SetString(f.String() + "x")
			return name + " changed"
		case reflect.Ptr:
			if f.Type().Elem().Kind() == reflect.Int {
				if f.IsNil() {
					n := 1 + g.n(4)
					// unset versus explicitly zero is the classic confusion of optional numbers (queue_limit: 0 means
					// "never queue", no queue_limit means "unbounded"); zero only where it stays a valid definition
					if sd := v.FieldByName("StartDelay"); g.p(350) && !(name == "QueueLimit" && sd.IsValid() && sd.Int() > 0) {
						n = 0
					}
					f.Set(reflect.ValueOf(&n))
					return fmt.Sprintf("%s set to %d", name, n)
				}
				if g.p(300) {
					f.Set(reflect.Zero(f.Type()))
					return name + " unset"
				}
				n := int(f.Elem().Int()) + 1
				f.Set(reflect.ValueOf(&n))
				return name + " changed"
			}
		case reflect.Map:
			// map of tasks: add, remove or modify one
			if f.Type().Elem() == reflect.TypeOf(definition.TaskDef{}) {
				tasks := map[string]definition.TaskDef{}
				for _, k := range f.MapKeys() {
					tasks[k.String()] = f.MapIndex(k).Interface().(definition.TaskDef)
				}
				names := make([]string, 0, len(tasks))
				for n := range tasks {
					names = append(names, n)
				}
				sort.Strings(names)
				switch {
				case len(names) > 0 && g.p(600):
					n := names[g.n(len(names))]
					t := tasks[n]
					tv := reflect.New(reflect.TypeOf(t)).Elem()
					tv.Set(reflect.ValueOf(t))
					var others []string
					for _, o := range names {
						if o != n {
							others = append(others, o)
						}
					}
					d := mutateField(g, tv, others)
					if d == "" {
						continue
					}
					tasks[n] = tv.Interface().(definition.TaskDef)
					f.Set(reflect.ValueOf(tasks))
					return "task " + n + ": " + d
				case len(names) > 1 && g.p(400):
					n := names[g.n(len(names))]
					delete(tasks, n)
					for o, t := range tasks {
						var nd []string
						for _, d := range t.DependsOn {
							if d != n {
								nd = append(nd, d)
							}
						}
						t.DependsOn = nd
						tasks[o] = t
					}
					f.Set(reflect.ValueOf(tasks))
					return "task " + n + " removed"
				default:
					n := fmt.Sprintf("t%d", g.n(1000))
					tasks[n] = definition.TaskDef{Script: []string{"echo new"}}
					f.Set(reflect.ValueOf(tasks))
					return "task " + n + " added"
				}
			}
		}
	}
	return ""
}

// validDef: the validity predicate of the statement of C17, written independently of the loader.
func validDef(p definition.PipelineDef) string {
	switch {
	case p.Concurrency < 1:
		return "concurrency < 1"
	case p.QueueLimit != nil && *p.QueueLimit < 0:
		return "negative queue limit"
	case p.StartDelay < 0:
		return "negative start delay"
	case p.StartDelay > 0 && p.QueueLimit != nil && *p.QueueLimit == 0:
		return "start delay with queue limit 0"
	case p.QueueStrategy != definition.QueueStrategyAppend && p.QueueStrategy != definition.QueueStrategyReplace:
		return "unknown queue strategy"
	}
	for n, t := range p.Tasks {
		for _, d := range t.DependsOn {
			if _, ok := p.Tasks[d]; !ok {
				return "task " + n + " depends on unknown task " + d
			}
		}
	}
	return ""
}

func genDef(g gen) definition.PipelineDef {
	p := definition.PipelineDef{Concurrency: 1 + g.n(3), Tasks: map[string]definition.TaskDef{}}
	if g.p(500) {
		n := 1 + g.n(3)
		p.QueueLimit = &n
	}
	if g.p(300) {
		p.QueueStrategy = definition.QueueStrategyReplace
	}
	if g.p(300) {
		p.StartDelay = time.Duration(1+g.n(10)) * time.Second
	} else if g.p(200) {
		zero := 0
		p.QueueLimit = &zero // "never queue": distinct from no limit at all
	}
	p.ContinueRunningTasksAfterFailure = g.p(300)
	if g.p(300) {
		p.RetentionCount = 1 + g.n(5)
	}
	if g.p(300) {
		p.RetentionPeriod = time.Duration(1+g.n(10)) * time.Hour
	}
	if g.p(500) {
		p.Env = map[string]string{"A": "", "B": "b"}
	}
	nt := 1 + g.n(3)
	var names []string
	for i := 0; i < nt; i++ {
		n := taskNames[i]
		t := definition.TaskDef{Script: []string{"echo " + n}}
		if i > 0 && g.p(500) {
			t.DependsOn = []string{names[g.n(len(names))]}
		}
		t.AllowFailure = g.p(200)
		if g.p(400) {
			t.Env = map[string]string{"E": "", "F": "f"}
		}
		p.Tasks[n] = t
		names = append(names, n)
	}
	return p
}

// ---------------------------------------------------------------------------

type reloadRun struct {
	sc    *Scenario
	rs    *ReloadScenario
	tape  *Tape
	viol  []Violation
	stats Stats
	trace []string
	step  int
}

func (r *reloadRun) violate(rule, format string, a ...interface{}) {
	for _, v := range r.viol {
		if v.Rule == rule {
			return
		}
	}
	r.viol = append(r.viol, Violation{"C17", rule, fmt.Sprintf(format, a...), r.step})
}

func (r *reloadRun) logf(format string, a ...interface{}) {
	r.trace = append(r.trace, fmt.Sprintf("%d ", r.step)+fmt.Sprintf(format, a...))
}

const pollInterval = 30 * time.Second

func (r *reloadRun) execute() error {
	g := gen{rand.New(rand.NewPCG(r.rs.Seed, 0x45444954))}
	base := "/dev/shm"
	if _, err := os.Stat(base); err != nil {
		base = os.TempDir()
	}
	root, err := os.MkdirTemp(base, "verif-reload-")
	if err != nil {
		return err
	}
	defer os.RemoveAll(root)
	verifhook.Handler, verifhook.SkipHandler, verifhook.FaultHandler = nil, nil, nil

	// the model: which pipelines live in which file
	files := make([]string, r.rs.Files)
	model := make([]map[string]definition.PipelineDef, r.rs.Files)
	for i := range files {
		dir := root
		for d := 0; d < i; d++ {
			dir = filepath.Join(dir, fmt.Sprintf("sub%d", d))
		}
		_ = os.MkdirAll(dir, 0o777)
		name := "pipelines.yml"
		if i%2 == 1 {
			name = "pipelines.yaml"
		}
		files[i] = filepath.Join(dir, name)
		model[i] = map[string]definition.PipelineDef{}
	}
	for i := 0; i < r.rs.Pipes; i++ {
		model[i%len(files)][pipeNames[i]] = genDef(g)
	}
	for i, f := range files {
		if err := writeStamped(f, renderFile(model[i])); err != nil {
			return err
		}
	}
	expected := func() map[string]string {
		res := map[string]string{}
		for i, m := range model {
			for name, p := range m {
				q := cloneDef(p)
				if q.Concurrency == 0 {
					q.Concurrency = 1
				}
				q.SourcePath = files[i]
				res[name] = canonDef(q)
			}
		}
		return res
	}
	pattern := filepath.Join(root, "**/pipelines.{yml,yaml}")
	defs, err := definition.LoadRecursively(pattern)
	if err != nil {
		return fmt.Errorf("initial load of generated (valid) files failed: %v", err)
	}
	installedCanon := func(d *definition.PipelinesDef) map[string]string {
		res := map[string]string{}
		for name, p := range d.Pipelines {
			res[name] = canonDef(p)
		}
		return res
	}
	if !reflect.DeepEqual(installedCanon(defs), expected()) {
		r.violate("b1", "a valid file set does not load to what it says: loaded %v, files say %v", installedCanon(defs), expected())
	}

	fs := flag.NewFlagSet("x", flag.ContinueOnError)
	fs.String("path", root, "")
	fs.String("pattern", "**/pipelines.{yml,yaml}", "")
	fs.Bool("watch", true, "")
	fs.Duration("poll-interval", pollInterval, "")
	cctx := cli.NewContext(cli.NewApp(), fs, nil)
	ctx, cancel := context.WithCancel(context.Background())
	defer cancel()
	runner, err := prunner.NewPipelineRunner(ctx, defs, func(j *prunner.PipelineJob) taskctl.Runner { return nil }, nil, nil)
	if err != nil {
		return err
	}
	// the polls do not fall on whole seconds of the simulated clock in every run: an edit, a poll and another edit
	// can then share one second (what a reload that looks at whole-second mtimes cannot tell apart)
	time.Sleep([]time.Duration{0, 500 * time.Millisecond, 250 * time.Millisecond}[g.n(3)])
	app.VerifHandleDefinitionChanges(ctx, cctx, runner, defs)
	synctest.Wait()

	checkInstalled := func(when string, mustEqualFiles bool) {
		inst := runner.VerifDefs()
		for name, p := range inst.Pipelines {
			if why := validDef(p); why != "" {
				r.violate("r2", "%s: the installed definition of pipeline %s is not valid: %s", when, name, why)
			}
		}
		if mustEqualFiles {
			got, want := installedCanon(inst), expected()
			if !reflect.DeepEqual(got, want) {
				diff := ""
				for n := range want {
					if got[n] != want[n] {
						diff = fmt.Sprintf("pipeline %s: installed %s, files say %s", n, got[n], want[n])
					}
				}
				for n := range got {
					if _, ok := want[n]; !ok {
						diff = "pipeline " + n + " is installed but no longer in the files"
					}
				}
				r.violate("r1", "%s: more than one poll interval after the edit was completed the installed definitions are not what the files say (%s)", when, diff)
			}
		}
	}

	pending := ""    // second half of a torn write
	pendingFile := ""
	filesValid := true

	// Reloads in flight. The reload goroutine parks at the hook in front of ReplaceDefinitions' lock: it has read the
	// files and is about to install what it read. The driver lets it go after the time step - and in one case of three
	// lets another (valid) edit land first, which is the schedule "a file changes while a reload is in flight".
	core := newCore()
	verifhook.Handler = func(point string, ctx []interface{}) {
		if point == "ReplaceDefinitions" && goid() != core.driver {
			core.park(point, point, nil, lkNone)
		}
	}
	defer func() { verifhook.Handler = nil }()
	midEdit := func() string {
		fi := g.n(len(files))
		var names []string
		for n := range model[fi] {
			names = append(names, n)
		}
		sort.Strings(names)
		if len(names) == 0 {
			return ""
		}
		n := names[g.n(len(names))]
		pv := reflect.New(reflect.TypeOf(model[fi][n])).Elem()
		for k := 0; k < 6; k++ {
			pv.Set(reflect.ValueOf(cloneDef(model[fi][n])))
			desc := mutateField(g, pv, nil)
			if q := pv.Interface().(definition.PipelineDef); desc != "" && validDef(withDefaults(q)) == "" {
				model[fi][n] = q
				tmp := files[fi] + ".tmp"
				_ = writeStamped(tmp, renderFile(model[fi]))
				_ = os.Rename(tmp, files[fi])
				return "pipeline " + n + ": " + desc
			}
		}
		return ""
	}
	// settleReloads releases parked reloads; reports whether an edit landed while one was in flight.
	settleReloads := func(allowEdit bool) bool {
		edited := false
		for i := 0; i < 6; i++ {
			core.drain()
			if len(core.parkedQ) == 0 {
				break
			}
			r.stats.Probes["reload_in_flight"]++
			if allowEdit && !edited && filesValid && r.tape.Pick(3) == 0 {
				if desc := midEdit(); desc != "" {
					edited = true
					r.stats.Faults["edit_during_reload"]++
					r.logf("edit (%s) lands while a reload is in flight", desc)
				}
			}
			for len(core.parkedQ) > 0 {
				core.release(core.parkedQ[0], relGo)
				core.drain()
			}
		}
		return edited
	}
	defer func() {
		for i := 0; i < 3; i++ {
			settleReloads(false)
		}
	}()
	// advance lets d of simulated time pass. A reload that parks is dealt with at once, at that instant: it never stays
	// parked while later polls fire (a version that runs reloads side by side under a lock of its own would then block
	// on that lock, which the bubble cannot see through).
	advance := func(d time.Duration, allowEdit bool) (edited bool) {
		deadline := time.Now().Add(d)
		for time.Until(deadline) > 0 {
			core.advanceUntilArrival(time.Until(deadline))
			if settleReloads(allowEdit && !edited) {
				edited = true
			}
		}
		synctest.Wait()
		if settleReloads(allowEdit && !edited) {
			edited = true
		}
		return edited
	}
	for e := 0; e < r.rs.Edits; e++ {
		Heartbeat.Add(1)
		r.step++
		fi := g.n(len(files))
		invalid := g.p(r.rs.PInval)
		torn := g.p(r.rs.PTorn)
		desc := ""
		var content []byte
		if invalid {
			r.stats.Faults["invalid_edit"]++
			content, desc = r.invalidContent(g, model, fi)
			filesValid = false
		} else {
			names := make([]string, 0, len(model[fi]))
			for n := range model[fi] {
				names = append(names, n)
			}
			sort.Strings(names)
			if len(names) == 0 {
				model[fi][pipeNames[len(pipeNames)-1]+fmt.Sprint(e)] = genDef(g)
				desc = "pipeline added"
			} else {
				n := names[g.n(len(names))]
				p := cloneDef(model[fi][n])
				pv := reflect.New(reflect.TypeOf(p)).Elem()
				pv.Set(reflect.ValueOf(p))
				for k := 0; k < 6; k++ {
					desc = mutateField(g, pv, nil)
					q := pv.Interface().(definition.PipelineDef)
					if desc != "" && validDef(withDefaults(q)) == "" {
						break
					}
					pv.Set(reflect.ValueOf(cloneDef(model[fi][n])))
					desc = ""
				}
				if desc == "" {
					desc = "no-op"
				} else {
					model[fi][n] = pv.Interface().(definition.PipelineDef)
					desc = "pipeline " + n + ": " + desc
				}
			}
			content = renderFile(model[fi])
			// every file is rewritten from the model, which also repairs an earlier invalid edit
			filesValid = true
			for k, f := range files {
				if k != fi {
					_ = writeStamped(f, renderFile(model[k]))
				}
			}
			r.stats.Probes["valid_single_field_edit"]++
		}
		if torn && len(content) > 4 {
			r.stats.Faults["torn_write"]++
			half := len(content) / 2
			_ = writeStamped(files[fi], content[:half])
			pending, pendingFile = string(content[half:]), files[fi]
			r.logf("edit %d (%s) on %s: first half written (%d of %d bytes)", e, desc, filepath.Base(files[fi]), half, len(content))
			// time may pass (and polls happen) while the file is half written
			d := []time.Duration{0, time.Second, 29 * time.Second, 31 * time.Second, 61 * time.Second}[r.tape.Pick(5)]
			if d > 0 {
				advance(d, false)
				r.logf("advance %v with a half-written file", d)
				checkInstalled(fmt.Sprintf("edit %d, file half written", e), false)
				r.stats.Probes["poll_during_torn_write"]++
			}
			f, err := os.OpenFile(pendingFile, os.O_APPEND|os.O_WRONLY, 0o644)
			if err == nil {
				_, _ = f.WriteString(pending)
				_ = f.Close()
				stamp(pendingFile)
			}
			pending = ""
		} else {
			tmp := files[fi] + ".tmp"
			_ = writeStamped(tmp, content)
			_ = os.Rename(tmp, files[fi])
		}
		r.logf("edit %d (%s) on %s completed, files valid=%v", e, desc, filepath.Base(files[fi]), filesValid)
		installedBefore := installedCanon(runner.VerifDefs())
		// let time pass: less than, about, or more than one poll interval
		d := []time.Duration{time.Second, 29 * time.Second, 31 * time.Second, 61 * time.Second, 0, 300 * time.Millisecond, 29700 * time.Millisecond}[r.tape.Pick(7)]
		midEdited := advance(d, true)
		r.logf("advance %v", d)
		if midEdited {
			d = 0 // the files changed again on the way: nothing can be demanded before another poll interval has passed
		}
		checkInstalled(fmt.Sprintf("edit %d (%s), %v later", e, desc, d), filesValid && d > pollInterval)
		if filesValid && d > pollInterval {
			r.stats.Probes["edit_checked_after_poll"]++
		}
		if !filesValid {
			// r3: previous definitions stay installed
			inst := installedCanon(runner.VerifDefs())
			if !reflect.DeepEqual(inst, installedBefore) {
				r.violate("r3", "edit %d (%s): the files are invalid, yet %v later the installed definitions have changed", e, desc, d)
			}
			if d > pollInterval {
				r.stats.Probes["invalid_edit_checked_after_poll"]++
			}
		}
	}
	// final: repair everything, wait two polls, must converge
	for k, f := range files {
		_ = writeStamped(f, renderFile(model[k]))
	}
	advance(2*pollInterval+time.Second, false)
	r.step++
	checkInstalled("at the end, two poll intervals after the last edit", true)

	r.directCases(g)
	cancel()
	time.Sleep(time.Second)
	synctest.Wait()
	r.stats.Steps = r.step
	r.stats.Started = r.rs.Edits
	r.stats.SimTime = time.Duration(r.rs.Edits) * pollInterval
	return nil
}

func withDefaults(p definition.PipelineDef) definition.PipelineDef {
	if p.Concurrency == 0 {
		p.Concurrency = 1
	}
	return p
}

// invalidContent: a file that violates exactly one rule (the model is left unchanged).
func (r *reloadRun) invalidContent(g gen, model []map[string]definition.PipelineDef, fi int) ([]byte, string) {
	m := map[string]definition.PipelineDef{}
	for n, p := range model[fi] {
		m[n] = cloneDef(p)
	}
	names := make([]string, 0, len(m))
	for n := range m {
		names = append(names, n)
	}
	sort.Strings(names)
	if len(names) == 0 {
		return []byte("pipelines: [this is not a map"), "broken YAML"
	}
	n := names[g.n(len(names))]
	p := m[n]
	neg := -1
	zero := 0
	switch g.n(8) {
	case 0:
		p.Concurrency = -1
		m[n] = p
		return renderFile(m), "concurrency -1"
	case 1:
		p.QueueLimit = &neg
		m[n] = p
		return renderFile(m), "queue_limit -1"
	case 2:
		p.StartDelay = -time.Second
		m[n] = p
		return renderFile(m), "start_delay -1s"
	case 3:
		p.StartDelay = time.Second
		p.QueueLimit = &zero
		m[n] = p
		return renderFile(m), "start_delay with queue_limit 0"
	case 4:
		for tn, t := range p.Tasks {
			t.DependsOn = append(t.DependsOn, "no_such_task")
			p.Tasks[tn] = t
			break
		}
		m[n] = p
		return renderFile(m), "depends_on an unknown task"
	case 5:
		b := renderFile(m)
		return []byte(strings.Replace(string(b), "pipelines:", "pipelines:\n  "+n+":\n    queue_strategy: sideways\n    tasks: {}\n  x_other:", 1)), "unknown queue strategy / mangled file"
	case 6:
		// a pipeline name that another file already declares
		for k, other := range model {
			if k != fi {
				for on, op := range other {
					m[on] = cloneDef(op)
					return renderFile(m), "duplicate pipeline name " + on
				}
			}
		}
		fallthrough
	default:
		return []byte("pipelines:\n  " + n + ":\n    tasks: [unclosed"), "broken YAML"
	}
}

// directCases: part (b) of C17. No schedule, clock or fault is involved here: these are
// plain generated inputs to pure functions, counted separately in the evidence.
func (r *reloadRun) directCases(g gen) {
	for i := 0; i < r.rs.Direct; i++ {
		a := genDef(g)
		a.SourcePath = "x.yml"
		b := cloneDef(a)
		da := definition.PipelinesDef{Pipelines: map[string]definition.PipelineDef{"p": a}}
		db := definition.PipelinesDef{Pipelines: map[string]definition.PipelineDef{"p": b}}
		if !da.Equals(db) || !db.Equals(da) {
			r.violate("b2", "Equals says a definition differs from its own deep copy: %s", canonDef(a))
		}
		bv := reflect.New(reflect.TypeOf(b)).Elem()
		bv.Set(reflect.ValueOf(b))
		desc := mutateField(g, bv, nil)
		if desc == "" {
			continue
		}
		b2 := bv.Interface().(definition.PipelineDef)
		if canonDef(a) == canonDef(b2) {
			continue
		}
		db = definition.PipelinesDef{Pipelines: map[string]definition.PipelineDef{"p": b2}}
		r.stats.Probes["direct_equals_single_field_difference"]++
		if da.Equals(db) || db.Equals(da) {
			r.violate("b2", "Equals reports two definitions as the same configuration although they differ in one field (%s): %s vs %s", desc, canonDef(a), canonDef(b2))
		}
	}
}
