//go:build race

package sim

import "runtime"

const raceBuild = true

func raceOff() { runtime.RaceDisable() }
func raceOn()  { runtime.RaceEnable() }
