#include "textflag.h"

// func getg() uintptr
TEXT ·getg(SB),NOSPLIT,$0-8
	MOVQ (TLS), AX
	MOVQ AX, ret+0(FP)
	RET
