package sim

import (
	"encoding/json"
	"errors"
	"fmt"
	"sort"
	"strings"
	"time"
)

// The oracles. Everything here is computed from what a client or an injected
// seam can see (API snapshots, operation results, stub events), and from the
// property statements in /verif/properties.jsonl — never from the
// implementation's variables (DESIGN §4).

type acceptInfo struct {
	Job      string
	Num      uint64
	Step     int
	At       time.Duration
	Pipeline string
	Def      PipeS
	DefStep  int // step at which the pipeline definition last changed before acceptance
	World    int
	Probe    bool
	BadGraph bool // cyclic graph or reserved variable name: cannot be started
	Cyclic   bool
	Vars     map[string]interface{}
	User     string
}

type cancelAck struct {
	Job          string
	Step         int
	WasStarted   bool
	TaskRunning  bool // some task of the job was between run-enter and run-exit at the ack step
	AllTasksDone bool // every task had already exited successfully at the ack step
	World        int
}

type monState struct {
	run *Run

	acc   map[string]*acceptInfo
	order []string

	evByJob    map[string][]Event
	startStep  map[string]int
	startAt    map[string]time.Duration
	defChanged map[string]int // pipeline -> step of the last content change of its definition (0: never)
	lastReload int            // step of the last reload that changed any definition
	sdActive, sdQuiet, sdForced map[uint64]bool // C11 r8, per Shutdown call (goroutine id)
	cancels    []cancelAck
	removed    map[string]int // job -> step of the save that removed it
	firstFail  map[string]int // job -> step of first non-allowed failure
	shutdownJobsRunningAtBegin map[string]bool
	taskOrderByDef map[string]string
	worldOfJob map[string]int
	forcedCancel map[string]bool // jobs cancelled by forced shutdown
	undefinedAt  map[string]int  // pipeline -> last step at which a reload left it undefined
	lastSeen     map[string]*JobSnap // last API report of every job ever seen
	saveOps      map[int]*saveOpInfo // client -> explicit save in flight (C12 r6c)
	listOps      map[int]map[string]bool // client -> jobs reported when its HTTP list request arrived
	listStart    map[int]int             // client -> step at which its HTTP list request arrived
	pipeHist     []string                // step -> canonical pipeline list reported after that step
	replaced     map[string]bool         // jobs that were replaced while they waited
	snapRing     [64]*Snap               // the last snapshots, by step number modulo its length (C12 r6)
	logsPending  map[string]*pendingLogs // job removed by a save whose log files were still there in the step of the removal
	removeFailed map[string]bool         // jobs whose log removal failed by injection
	goneBySave   map[string]int          // job -> step in which a save removed it from the runner
	forcedAt     map[string]int          // job with a task in flight when a forced shutdown's deadline passed -> that step
	snapAtSave   map[int]*Snap       // handed-save index -> API snapshot at the instant the snapshot was built
	lastChangeAt time.Duration       // fake time of the last step that changed the reported state
	liveExec      map[string]int     // job -> scheduler runs begun and not yet completed
	execPipeline  map[string]string  // job -> pipeline, as known when its execution began
	stableChecked int                // completed saves already checked by checkSavedDataStable
	initialLoaded string             // canonical form of the snapshot the current world started from
}

func newMonState(run *Run) *monState {
	return &monState{run: run, acc: map[string]*acceptInfo{}, evByJob: map[string][]Event{},
		startStep: map[string]int{}, startAt: map[string]time.Duration{}, defChanged: map[string]int{},
		removed: map[string]int{}, firstFail: map[string]int{}, replaced: map[string]bool{}, logsPending: map[string]*pendingLogs{}, removeFailed: map[string]bool{}, goneBySave: map[string]int{}, forcedAt: map[string]int{}, taskOrderByDef: map[string]string{},
		worldOfJob: map[string]int{}, forcedCancel: map[string]bool{}, undefinedAt: map[string]int{},
		lastSeen: map[string]*JobSnap{}, snapAtSave: map[int]*Snap{}, initialLoaded: "[]",
		liveExec: map[string]int{}, execPipeline: map[string]string{}}
}

func (m *monState) pipelineOf(job string) string {
	if a := m.acc[job]; a != nil {
		return a.Pipeline
	}
	if m.run.pre != nil {
		if j := m.run.pre.Jobs[job]; j != nil {
			return j.Pipeline
		}
	}
	return ""
}

func pipeKey(p *PipeS) string {
	if p == nil {
		return "<undefined>"
	}
	b, _ := json.Marshal(p)
	return string(b)
}

func (m *monState) onWorldStart(w *World, old *World) {
	if old != nil {
		m.onRestart(w, old)
	}
}

func (m *monState) onRestartFailed(old *World, err error) {
	m.run.violate("C10", "r0", "runner could not be started from the persisted state: %v", err)
}

func (m *monState) beforeRelease(si *StepInfo, rec *parked) {}

func (m *monState) events(job, kind string) (res []Event) {
	for _, e := range m.evByJob[job] {
		if e.Kind == kind {
			res = append(res, e)
		}
	}
	return
}

func (m *monState) exitOf(job, task string) (string, bool) {
	for _, e := range m.evByJob[job] {
		if e.Kind == "run-exit" && e.Task == task {
			return e.Arg, true
		}
	}
	return "", false
}

func okExit(arg string) bool { return arg == "ok" || arg == "fail-allowed" || arg == "ioerr-allowed" }

// defUnchangedSince reports whether the pipeline's definition content did not change after step.
func (m *monState) defUnchangedSince(pipeline string, step int) bool {
	return m.defChanged[pipeline] <= step
}

// ---------------------------------------------------------------------------

func (m *monState) onStep(si *StepInfo, pre, post *Snap, evs []Event) {
	run := m.run
	w := run.cur
	for _, e := range evs {
		m.evByJob[e.Job] = append(m.evByJob[e.Job], e)
	}
	if len(post.Dup) > 0 {
		run.violate("C15", "r3d", "job %v reported twice by IterateJobs", post.Dup)
	}
	for len(m.pipeHist) < si.N {
		m.pipeHist = append(m.pipeHist, canonPipes(pre.Pipelines)) // steps recorded without a snapshot (lock busy) repeat the last state
	}
	m.pipeHist = append(m.pipeHist, canonPipes(post.Pipelines)) // index = step number
	for name, j := range post.Jobs {
		if old := m.lastSeen[name]; old == nil || run.trackChanges && old.digest() != j.digest() {
			m.lastChangeAt = post.At
		}
		m.lastSeen[name] = j
	}

	// --- operation results
	for i := range si.Results {
		res := &si.Results[i]
		if res.Lost || res.World != w.id {
			continue
		}
		switch res.Op.Kind {
		case "schedule":
			m.checkSchedule(si, res, pre, post)
			m.checkProbe(si, res)
		case "cancel":
			m.checkCancel(si, res, pre, post)
		case "read":
			m.checkRead(si, res, pre, post)
		case "list":
			m.checkList(si, res, pre, post)
		case "reload":
			m.checkReload(si, res, pre, post)
		case "shutdown":
			m.checkShutdownReturn(si, res, pre, post)
		case "save":
			m.checkSaveReturn(si, res, post)
		case "http":
			if res.Route != "" {
				m.checkAuthHTTP(si, res, pre, post, evs)
				// a request that was let through is an ordinary operation for all the other oracles
				if res.Op.PathStyle == 0 {
					switch {
					case res.Route == "POST /job/cancel" && (res.Status == 200 || res.Status == 404 || res.Status == 500):
						c := *res
						c.Op = Op{Kind: "cancel", Job: res.Op.Job, HTTP: true}
						c.Job = fmt.Sprintf("j%d", res.Op.Job)
						c.Err = map[int]string{200: "", 404: "notfound", 500: "completed"}[res.Status]
						m.checkCancel(si, &c, pre, post)
					case res.Route == "POST /pipelines/schedule" && res.Status != 401:
						c := *res
						pl := ""
						if len(run.cur.defs.Pipelines) > 0 {
							pl = run.cur.defs.Pipelines[0].Name
						}
						c.Op = Op{Kind: "schedule", Pipeline: pl, Vars: map[string]interface{}{"from": "http"}, User: "http-user", HTTP: true}
						c.Job, c.Err = "", ""
						if res.Status == 202 {
							var out struct {
								JobID string `json:"jobId"`
							}
							_ = json.Unmarshal([]byte(res.Body), &out)
							if id, err := uuidFromString(out.JobID); err == nil {
								c.Job = jobName(id)
							}
						} else {
							var out struct {
								Error string `json:"error"`
							}
							_ = json.Unmarshal([]byte(res.Body), &out)
							c.Err = classify(errors.New(out.Error))
							if res.Status == 503 {
								c.Err = "shuttingdown"
							}
						}
						m.checkSchedule(si, &c, pre, post)
					}
				}
			}
		}
	}

	// --- job starts in this step
	for _, name := range post.sortedNames() {
		j := post.Jobs[name]
		if j.Start == nil {
			continue
		}
		if pj := pre.Jobs[name]; pj != nil && pj.Start != nil {
			continue
		}
		if _, seen := m.startStep[name]; seen {
			continue
		}
		m.startStep[name] = si.N
		m.startAt[name] = post.At
		run.stats.Started++
		m.checkStart(si, j, pre, post)
	}

	// --- stub events
	// (a scheduler run has ended when its goroutine reaches JobCompleted; what that step starts comes after)
	if si.Point == "JobCompleted" {
		if i := strings.Index(si.Name, ":"); i > 0 {
			job := strings.SplitN(si.Name[i+1:], "@", 2)[0]
			if m.liveExec[job] > 0 {
				m.liveExec[job]--
			}
		}
	}
	for _, e := range evs {
		m.checkEvent(si, e, pre, post)
	}


	// --- invariants on every state
	m.checkInvariants(si, pre, post)

	// --- steps that must not change any job
	if si.Point == "ListPipelines" || si.Point == "IterateJobs" || si.Point == "ReadJob" {
		if pre.digest() != post.digest() {
			run.violate("C13", "r9", "read-only operation %s changed the reported state", si.Name)
		}
	}
	m.snapRing[si.N%len(m.snapRing)] = post
	if si.InSave {
		m.checkSaveStep(si, pre, post, evs)
	}
	m.checkPendingLogRemovals(si, false)
	m.checkSavedDataStable(si)
	// C11 r8: a Shutdown call that leaves its poll loop without having been forced has seen "no pipeline is running",
	// so at some instant since it began no job was running (per call, keyed by the goroutine).
	if m.sdActive == nil {
		m.sdActive, m.sdQuiet, m.sdForced = map[uint64]bool{}, map[uint64]bool{}, map[uint64]bool{}
	}
	if si.Point == "Shutdown.begin" && si.Gid != 0 {
		m.sdActive[si.Gid], m.sdQuiet[si.Gid], m.sdForced[si.Gid] = true, false, false
	}
	if len(m.sdActive) > 0 {
		quiet := func(s *Snap) bool {
			if s == nil {
				return true
			}
			for _, j := range s.Jobs {
				if j.Running() {
					return false
				}
			}
			return true
		}
		if quiet(pre) || quiet(post) {
			for g := range m.sdActive {
				m.sdQuiet[g] = true
			}
		}
		if si.Point == "Shutdown.force" {
			m.sdForced[si.Gid] = true
		}
		if si.Point == "Shutdown.wait" && m.sdActive[si.Gid] {
			if !m.sdForced[si.Gid] && !m.sdQuiet[si.Gid] {
				still := ""
				for _, n := range pre.sortedNames() {
					if pre.Jobs[n].Running() {
						still = n
						break
					}
				}
				run.violate("C11", "r8", "step %d: Shutdown left its poll loop without being forced although a job was running at every instant since it began (job %s still is): it stopped watching running jobs, so a deadline can no longer cancel them", si.N, still)
			}
			delete(m.sdActive, si.Gid)
		}
	}
	if si.Point == "Shutdown.begin" {
		m.shutdownJobsRunningAtBegin = map[string]bool{}
		for n, j := range pre.Jobs {
			if j.Running() {
				m.shutdownJobsRunningAtBegin[n] = true
			}
		}
	}
	if si.Point == "Shutdown.force" {
		for n, j := range pre.Jobs {
			if j.Running() {
				m.forcedCancel[n] = true
				// a forced shutdown is a cancel of every running job: those with a task in flight must be told to stop
				if _, seen := m.forcedAt[n]; !seen && m.taskInFlight(n) {
					m.forcedAt[n] = si.N
				}
			}
		}
	}
}

// ---------------------------------------------------------------------------
// C05 (and the acceptance bookkeeping everything else uses)

func unbuildable(p *PipeS, vars map[string]interface{}) (bad bool, cyclic bool) {
	cyclic = p != nil && p.hasCycle()
	_, reserved := vars["__jobID"]
	return cyclic || reserved, cyclic
}

func (m *monState) checkSchedule(si *StepInfo, res *OpResult, pre, post *Snap) {
	run := m.run
	w := run.cur
	P := res.Op.Pipeline
	def := w.defs.pipe(P)

	if res.Job != "" {
		bad, cyc := unbuildable(def, res.Op.Vars)
		a := &acceptInfo{Job: res.Job, Step: si.N, At: post.At, Pipeline: P, World: w.id, Probe: res.Client < 0,
			DefStep: m.defChanged[P], BadGraph: bad, Cyclic: cyc, Vars: res.Op.Vars, User: res.Op.User}
		if def != nil {
			a.Def = cloneDefSet(DefSet{Pipelines: []PipeS{*def}}).Pipelines[0]
		}
		if j := post.Jobs[res.Job]; j != nil {
			a.Num = j.Num
		}
		m.acc[res.Job] = a
		m.order = append(m.order, res.Job)
		if run.sc.Profile == "C19" {
			m.logsOfQuietTasks(res.Job, post.Jobs[res.Job])
		}
		m.worldOfJob[res.Job] = w.id
		run.stats.Accepted++
	}

	// expected outcome per the statement of C05, evaluated on the state before the step
	expect := ""
	var victim *JobSnap
	switch {
	case w.shutdownBegun > 0 && w.shutdownBegun <= si.N-1:
		expect = "shuttingdown"
	case def == nil:
		expect = "undefined"
	default:
		running := pre.running(P)
		waiting := pre.waiting(P)
		switch {
		case running < def.Concurrency && def.StartDelayMs == 0:
			expect = "start"
		case def.QueueLimit != nil && *def.QueueLimit == 0:
			expect = "noqueue"
		case def.Replace && len(waiting) > 0:
			expect = "replace"
			victim = waiting[len(waiting)-1]
		case def.QueueLimit != nil && len(waiting) >= *def.QueueLimit:
			expect = "queuefull"
		default:
			expect = "append"
		}
		run.probe("admission:" + expect)
		if run.sc.Profile == "C05" {
			slot := "free"
			if running >= def.Concurrency {
				slot = "full"
			}
			w := len(waiting)
			if w > 3 {
				w = 3
			}
			run.probe(fmt.Sprintf("cell:%s/slot-%s/waiting%d/ql%d/replace-%v/delay-%v", expect, slot, w, derefInt(def.QueueLimit), def.Replace, def.StartDelayMs > 0))
		}
	}
	if w.shutdownBegun == si.N {
		return // begun in this very step: not a schedule step
	}
	accepted := expect == "start" || expect == "replace" || expect == "append"
	if accepted && si.Outcome == "uuid-fails" {
		expect = "uuid"
		accepted = false
	}
	desc := fmt.Sprintf("schedule %s at step %d (expected %s): ", P, si.N, expect)
	if !accepted {
		if res.Job != "" {
			run.violate("C05", "r1", "%srequest was accepted as %s", desc, res.Job)
			return
		}
		// The statement says "rejected", not with which words: the two queue errors are unexported values, the harness
		// can only read their text, so any refusal that is not one of the *other* known classes is the expected one.
		same := res.Err == expect
		switch expect {
		case "noqueue", "queuefull", "undefined":
			same = same || strings.HasPrefix(res.Err, "other:") || res.Err == "noqueue" || res.Err == "queuefull"
		}
		if !same {
			run.violate("C05", "r1", "%srequest was rejected with %q", desc, res.Err)
		}
		if pre.digest() != post.digest() {
			run.violate("C05", "r3", "%srejected request changed the reported state", desc)
		}
		return
	}
	if res.Job == "" {
		run.violate("C05", "r1", "%srequest was rejected with %q", desc, res.Err)
		return
	}
	j := post.Jobs[res.Job]
	if j == nil {
		run.violate("C15", "r3", "%saccepted job %s is not reported after its request returned", desc, res.Job)
		return
	}
	a := m.acc[res.Job]
	switch expect {
	case "start":
		if a.BadGraph {
			if !(j.Start == nil && j.Canceled && j.HasError) {
				run.violate("C02", "r5", "%sjob %s with an unbuildable graph is not reported canceled with an error (start=%v canceled=%v err=%q)", desc, j.Name, j.Start != nil, j.Canceled, j.LastError)
			}
		} else if j.Start == nil {
			run.violate("C05", "r1", "%sjob %s was not started at once (waiting=%v canceled=%v)", desc, j.Name, j.Waiting(), j.Canceled)
		}
	case "append", "replace":
		if !j.Waiting() {
			run.violate("C05", "r1", "%sjob %s is not waiting afterwards (start=%v canceled=%v)", desc, j.Name, j.Start != nil, j.Canceled)
		}
	}
	// every other job unchanged, except the replaced one
	for name, pj := range pre.Jobs {
		nj := post.Jobs[name]
		if nj == nil {
			run.violate("C05", "r2", "%sjob %s disappeared", desc, name)
			continue
		}
		if victim != nil && name == victim.Name {
			m.replaced[name] = true
			if !(nj.Canceled && nj.Start == nil) {
				run.violate("C05", "r2", "%sreplaced job %s (the most recently queued waiting job) is not reported canceled", desc, name)
			}
			continue
		}
		if a.BadGraph && expect == "start" && pj.Waiting() && (nj.Start != nil || nj.Canceled && nj.HasError) {
			continue // the new job was refused at its start, which makes the runner look at its wait list
		}
		if pj.digest() != nj.digest() {
			run.violate("C05", "r2", "%sjob %s changed (before %s after %s)", desc, name, brief(pj), brief(nj))
		}
	}
	if victim != nil {
		run.probe("replace_with_waiting")
	}
}

// checkProbe: C15 r1. The driver listed the pipelines and issued the schedule
// request with nothing in between.
func (m *monState) checkProbe(si *StepInfo, res *OpResult) {
	if res.Client >= 0 || len(res.List) != 1 {
		return
	}
	accepted := res.Job != ""
	if res.List[0].Schedulable != accepted {
		m.run.violate("C15", "r1", "step %d: pipeline %s was listed schedulable=%v and the schedule request issued immediately afterwards was accepted=%v (%s)", si.N, res.Op.Pipeline, res.List[0].Schedulable, accepted, res.Err)
	}
}

func sortedNameSet(m map[string]bool) []string {
	var ks []string
	for k := range m {
		ks = append(ks, k)
	}
	sort.Strings(ks)
	return ks
}

// onListOpStart remembers which jobs are reported when an HTTP list request arrives.
func (m *monState) onListOpStart(client int) {
	if m.run.pre == nil {
		return
	}
	if m.listOps == nil {
		m.listOps = map[int]map[string]bool{}
	}
	names := map[string]bool{}
	for n := range m.run.pre.Jobs {
		names[n] = true
	}
	m.listOps[client] = names
	if m.listStart == nil {
		m.listStart = map[int]int{}
	}
	m.listStart[client] = m.run.step
}

func canonPipes(ps []PipeInfo) string {
	c := append([]PipeInfo(nil), ps...)
	sort.Slice(c, func(i, j int) bool { return c[i].Pipeline < c[j].Pipeline })
	return fmt.Sprint(c)
}

// taskInFlight: is a task of the job between run-enter and run-exit (by the stub's events so far)?
func (m *monState) taskInFlight(job string) bool {
	enter := map[string]bool{}
	for _, e := range m.evByJob[job] {
		switch e.Kind {
		case "run-enter":
			enter[e.Task] = true
		case "run-exit":
			delete(enter, e.Task)
		}
	}
	return len(enter) > 0
}

func brief(j *JobSnap) string {
	st := "waiting"
	switch {
	case j.Canceled && j.Completed:
		st = "completed+canceled"
	case j.Canceled:
		st = "canceled"
	case j.Completed:
		st = "completed"
	case j.Start != nil:
		st = "running"
	}
	return j.Name + ":" + st
}

// ---------------------------------------------------------------------------
// job start: C01 r1, C06 r1, C07 r1

func (m *monState) checkStart(si *StepInfo, j *JobSnap, pre, post *Snap) {
	run := m.run
	w := run.cur
	P := j.Pipeline
	def := w.defs.pipe(P)
	if def != nil {
		if n := post.running(P); n > def.Concurrency {
			run.violate("C01", "r1", "step %d (%s): job %s started, %d jobs of pipeline %s now execute, limit %d", si.N, si.Name, j.Name, n, P, def.Concurrency)
		}
	}
	if pj := pre.Jobs[j.Name]; pj != nil && pj.Canceled {
		run.violate("C07", "r3", "step %d (%s): job %s had been reported canceled while it waited (replaced or canceled) and is started now", si.N, si.Name, j.Name)
		run.violate("C04", "r1", "step %d (%s): job %s had been reported canceled while it waited and is started now", si.N, si.Name, j.Name)
	}
	a := m.acc[j.Name]
	if a == nil {
		return
	}
	// C06: no earlier-accepted job of the pipeline still waiting (definition unchanged since it was accepted).
	// The statement is about a queue that lives under one definition: as long as jobs accepted under a
	// previous definition (e.g. with a start delay that has since been removed) are still waiting, the
	// immediate-start rule of C05 and the order rule cannot both be demanded.
	queueUnderOneDef := true
	for _, o := range post.waiting(P) {
		if oa := m.acc[o.Name]; oa == nil || !m.defUnchangedSince(P, oa.Step) {
			queueUnderOneDef = false
		}
	}
	for _, o := range post.waiting(P) {
		if !queueUnderOneDef {
			break
		}
		oa := m.acc[o.Name]
		if oa == nil || o.Num >= j.Num {
			continue
		}
		if m.defUnchangedSince(P, oa.Step) {
			run.violate("C06", "r1", "step %d (%s): job %s started while %s, accepted earlier, is still waiting", si.N, si.Name, j.Name, o.Name)
		}
	}
	// C07: start - accept >= delay of the definition at acceptance
	d := time.Duration(a.Def.StartDelayMs) * time.Millisecond
	if waited := post.At - a.At; waited < d {
		run.violate("C07", "r1", "step %d (%s): job %s started %v after acceptance, start_delay is %v", si.N, si.Name, j.Name, waited, d)
		if !m.defUnchangedSince(P, a.Step) {
			run.violate("C16", "r5", "step %d (%s): job %s was accepted at step %d under a definition with start_delay %v, the definitions were replaced while it waited, and it started %v after acceptance", si.N, si.Name, j.Name, a.Step, d, waited)
		}
	}
	if d > 0 {
		run.probe("delayed_job_started")
	}
	if a.Step != si.N {
		run.probe("dequeue_start")
	}
}

// ---------------------------------------------------------------------------
// stub events: C01 r2/r3, C02 r1/r2/r5, C04 r1/r3, C08 r1, C16 r1

func (m *monState) checkEvent(si *StepInfo, e Event, pre, post *Snap) {
	run := m.run
	j := post.Jobs[e.Job]
	a := m.acc[e.Job]
	switch e.Kind {
	case "exec-begin":
		if j != nil && len(j.Tasks) >= 2 {
			run.probe("multi_task_job_ran")
		}
		// C01 r4: executions that are really in progress (begun and not yet handed to JobCompleted), counted from the
		// task runner's side, so that a job the API no longer reports still counts
		if pl := m.pipelineOfExec(e.Job, post); pl != "" {
			m.execPipeline[e.Job] = pl
			live := 0
			var names []string
			for job, n := range m.liveExec {
				if n > 0 && m.execPipeline[job] == pl {
					live += n
					names = append(names, job)
				}
			}
			live++
			m.liveExec[e.Job]++
			if def := run.cur.defs.pipe(pl); def != nil && live > def.Concurrency {
				sort.Strings(names)
				run.violate("C01", "r4", "step %d (%s): job %s begins to execute while %v of pipeline %s are still executing (their scheduler runs have not ended): %d executions, limit %d", si.N, si.Name, e.Job, names, pl, live, def.Concurrency)
			}
		}
		n := len(m.events(e.Job, "exec-begin"))
		if n > 1 {
			run.violate("C01", "r3", "step %d (%s): job %s is executed %d times (a second scheduler run was started for it)", si.N, si.Name, e.Job, n)
		}
		if a != nil && a.BadGraph {
			run.violate("C02", "r5", "step %d: job %s with an unbuildable graph is being executed", si.N, e.Job)
		}
	case "run-enter":
		if _, purged := m.removed[e.Job]; j == nil && purged {
			// the job was purged by a save because its pipeline is no longer defined; it is no longer reported at all
			run.probe("task_of_purged_job_runs")
			return
		}
		if j == nil || !j.Running() {
			run.violate("C01", "r2", "step %d (%s): task %s/%s begins to run while the job is reported %s", si.N, si.Name, e.Job, e.Task, state(j))
		}
		cnt := 0
		for _, x := range m.evByJob[e.Job] {
			if x.Kind == "run-enter" && x.Task == e.Task {
				cnt++
			}
		}
		if cnt > 1 {
			run.violate("C02", "r1", "step %d (%s): task %s/%s executes for the %d. time", si.N, si.Name, e.Job, e.Task, cnt)
		}
		if j != nil {
			if t := j.task(e.Task); t != nil {
				for _, dep := range t.DependsOn {
					if dep == e.Task {
						continue
					}
					arg, ok := m.exitOfBefore(e.Job, dep, e)
					if !ok || !okExit(arg) {
						run.violate("C02", "r2", "step %d (%s): task %s/%s begins although its dependency %s has not finished successfully (%s)", si.N, si.Name, e.Job, e.Task, dep, orStr(arg, "not finished"))
					}
				}
				// C08 r1: no failed ancestor
				if anc := m.failedAncestor(j, e.Task, map[string]bool{}); anc != "" {
					run.violate("C08", "r1", "step %d (%s): task %s/%s runs although %s, on which it depends, failed", si.N, si.Name, e.Job, e.Task, anc)
				}
			}
		}
		// C04 r1: a job whose cancel was acknowledged before it started never runs a task
		for _, c := range m.cancels {
			if c.Job == e.Job && !c.WasStarted {
				run.violate("C04", "r1", "step %d (%s): task %s/%s runs although the job was canceled at step %d before it had started", si.N, si.Name, e.Job, e.Task, c.Step)
			}
		}
		// C04 r3: nothing begins after the stop was delivered
		if cd := m.events(e.Job, "cancel-delivered"); len(cd) > 0 && cd[0].Step < e.Step {
			run.violate("C04", "r3", "step %d (%s): task %s/%s begins after the stop was delivered at step %d", si.N, si.Name, e.Job, e.Task, cd[0].Step)
		}
		if a != nil && a.BadGraph {
			run.violate("C02", "r5", "step %d: task %s/%s of a job with an unbuildable graph runs", si.N, e.Job, e.Task)
		}
	case "run-exit":
		pj := pre.Jobs[e.Job]
		if _, purged := m.removed[e.Job]; pj == nil && purged {
			return
		}
		if pj == nil || !pj.Running() {
			run.violate("C01", "r2", "step %d (%s): task %s/%s is still running while the job is reported %s", si.N, si.Name, e.Job, e.Task, state(pj))
		}
		if e.Arg == "fail" {
			if _, ok := m.firstFail[e.Job]; !ok {
				m.firstFail[e.Job] = si.N
			}
		}
	case "run-args":
		if a == nil {
			return
		}
		t := a.Def.task(e.Task)
		if t == nil {
			run.violate("C16", "r1", "step %d: job %s runs task %s, which its pipeline did not define when the job was accepted", si.N, e.Job, e.Task)
			return
		}
		want := encodeArgs(t.script(), t.Env, t.AllowFailure, a.Def.Env)
		if e.Arg != want {
			run.violate("C16", "r1", "step %d: job %s task %s is asked to run %s, the definition at acceptance says %s", si.N, e.Job, e.Task, e.Arg, want)
		}
	}
}

func orStr(a, b string) string {
	if a == "" {
		return b
	}
	return a
}

func state(j *JobSnap) string {
	if j == nil {
		return "absent"
	}
	return brief(j)
}

func (m *monState) exitOfBefore(job, task string, before Event) (string, bool) {
	for _, e := range m.evByJob[job] {
		if e.Kind == "run-exit" && e.Task == task && e.Stub == before.Stub {
			return e.Arg, true
		}
	}
	return "", false
}

func (m *monState) failedAncestor(j *JobSnap, task string, seen map[string]bool) string {
	t := j.task(task)
	if t == nil || seen[task] {
		return ""
	}
	seen[task] = true
	for _, dep := range t.DependsOn {
		if arg, ok := m.exitOf(j.Name, dep); ok && arg == "fail" {
			return dep
		}
		if a := m.failedAncestor(j, dep, seen); a != "" {
			return a
		}
	}
	return ""
}

// ---------------------------------------------------------------------------
// C04: cancel acknowledgements

func (m *monState) checkCancel(si *StepInfo, res *OpResult, pre, post *Snap) {
	run := m.run
	pj := pre.Jobs[res.Job]
	nj := post.Jobs[res.Job]
	switch {
	case pj == nil:
		if res.Err != "notfound" {
			run.violate("C04", "r5", "step %d: cancel of unknown job %s returned %q, want not found", si.N, res.Job, res.Err)
		}
		if pre.digest() != post.digest() {
			run.violate("C04", "r5", "step %d: cancel of unknown job changed the state", si.N)
		}
	case pj.Canceled:
		if res.Err != "" {
			run.violate("C04", "r5", "step %d: cancel of already canceled job %s returned %q, want no error", si.N, res.Job, res.Err)
		}
		if nj == nil || pj.digest() != nj.digest() {
			run.violate("C04", "r5", "step %d: cancel of already canceled job %s changed it", si.N, res.Job)
		}
	case pj.Completed:
		// "a finished job is left unchanged": whether the request is answered with an error is not part of the statement
		if res.Err == "notfound" {
			run.violate("C04", "r5", "step %d: cancel of finished job %s, which is reported by the API, returned not found", si.N, res.Job)
		}
		if nj == nil || pj.digest() != nj.digest() {
			run.violate("C04", "r5", "step %d: cancel of finished job %s changed it", si.N, res.Job)
		}
	default:
		if res.Err != "" {
			// not acknowledged: the statement speaks about acknowledged requests only (a runner may, for instance, refuse
			// cancels while it shuts down). Unknown is the one answer it must not give for a job it reports.
			if res.Err == "notfound" {
				run.violate("C04", "r0", "step %d: cancel of unfinished job %s, which is reported by the API, returned not found", si.N, res.Job)
			}
			run.probe("cancel_refused")
			return
		}
		c := cancelAck{Job: res.Job, Step: si.N, WasStarted: pj.Start != nil, World: run.cur.id}
		if c.WasStarted {
			enter := map[string]bool{}
			exitOK := map[string]bool{}
			for _, e := range m.evByJob[res.Job] {
				switch e.Kind {
				case "run-enter":
					enter[e.Task] = true
				case "run-exit":
					delete(enter, e.Task)
					if okExit(e.Arg) {
						exitOK[e.Task] = true
					}
				}
			}
			c.TaskRunning = len(enter) > 0
			c.AllTasksDone = len(exitOK) == len(pj.Tasks)
			switch {
			case c.AllTasksDone:
				run.probe("cancel_after_last_task")
			case !c.TaskRunning && len(exitOK) > 0:
				run.probe("cancel_in_stage_gap")
			case c.TaskRunning:
				run.probe("cancel_while_task_runs")
			}
		} else {
			if pj.StartDelay > 0 {
				run.probe("cancel_waiting_delayed")
			} else {
				run.probe("cancel_waiting")
			}
			if nj == nil || !nj.Canceled {
				run.violate("C04", "r4", "step %d: cancel of waiting job %s acknowledged but the job is not reported canceled", si.N, res.Job)
			}
		}
		m.cancels = append(m.cancels, c)
		// nothing else may change, except that the cancel of a waiting job can let jobs queued behind it start
		// (or be refused at their start if their graph cannot be built)
		for name, oj := range pre.Jobs {
			if name == res.Job {
				continue
			}
			x := post.Jobs[name]
			if x != nil && x.digest() == oj.digest() {
				continue
			}
			if x != nil && !c.WasStarted && oj.Waiting() && (x.Start != nil || x.Canceled && x.HasError) {
				continue
			}
			run.violate("C04", "r6", "step %d: cancel of %s changed job %s (before %s, after %s)", si.N, res.Job, name, brief(oj), state(x))
		}
	}
}

func (m *monState) checkRead(si *StepInfo, res *OpResult, pre, post *Snap) {
	run := m.run
	pj := pre.Jobs[res.Job]
	if res.Op.HTTP {
		if pj == nil && res.Status != 404 {
			run.violate("C15", "r3", "step %d: /job/detail of unknown job %s answered %d", si.N, res.Job, res.Status)
		}
		if pj != nil {
			if res.Status != 200 {
				run.violate("C15", "r3", "step %d: /job/detail of job %s answered %d", si.N, res.Job, res.Status)
				return
			}
			m.checkDetailJSON(si, res.Body, pj)
		}
		return
	}
	if pj == nil {
		if res.Err != "notfound" {
			run.violate("C15", "r3", "step %d: ReadJob of unknown job %s returned %q", si.N, res.Job, res.Err)
		}
		return
	}
	if res.Err != "" || res.Read == nil {
		run.violate("C15", "r3", "step %d: accepted job %s cannot be read (%q)", si.N, res.Job, res.Err)
		return
	}
	if res.Read.digest() != pj.digest() {
		run.violate("C15", "r3", "step %d: ReadJob(%s) disagrees with IterateJobs at the same instant", si.N, res.Job)
	}
}

// detailJSON mirrors the documented response of /job/detail.
type detailJSON struct {
	ID        string `json:"id"`
	Pipeline  string `json:"pipeline"`
	Completed bool   `json:"completed"`
	Canceled  bool   `json:"canceled"`
	Errored   bool   `json:"errored"`
	Created   string `json:"created"`
	Start     *string
	End       *string
	LastError *string `json:"lastError"`
	User      string  `json:"user"`
	Tasks     []struct {
		Name      string   `json:"name"`
		DependsOn []string `json:"dependsOn"`
		Status    string   `json:"status"`
		Errored   bool     `json:"errored"`
		ExitCode  int      `json:"exitCode"`
		Error     *string  `json:"error"`
	} `json:"tasks"`
}

func (m *monState) checkDetailJSON(si *StepInfo, body string, pj *JobSnap) {
	run := m.run
	var d detailJSON
	if err := json.Unmarshal([]byte(body), &d); err != nil {
		run.violate("C15", "r3", "step %d: /job/detail body does not parse: %v", si.N, err)
		return
	}
	if d.ID != pj.ID || d.Pipeline != pj.Pipeline || d.Completed != pj.Completed || d.Canceled != pj.Canceled || len(d.Tasks) != len(pj.Tasks) {
		run.violate("C15", "r3", "step %d: /job/detail of %s disagrees with the runner (json %+v, runner %s)", si.N, pj.Name, d, brief(pj))
		return
	}
	anyErr := false
	for i, t := range pj.Tasks {
		if d.Tasks[i].Name != t.Name || d.Tasks[i].Status != t.Status || d.Tasks[i].Errored != t.Errored {
			run.violate("C15", "r3", "step %d: /job/detail task %d of %s disagrees with the runner", si.N, i, pj.Name)
		}
		anyErr = anyErr || t.Errored
	}
	if d.Errored != anyErr {
		run.violate("C08", "r2j", "step %d: /job/detail reports errored=%v for %s, tasks say %v", si.N, d.Errored, pj.Name, anyErr)
	}
	if (d.LastError != nil) != pj.HasError {
		run.violate("C15", "r3", "step %d: /job/detail lastError of %s disagrees with the runner", si.N, pj.Name)
	}
}

func (m *monState) checkList(si *StepInfo, res *OpResult, pre, post *Snap) {
	run := m.run
	if res.Op.HTTP {
		if res.Status != 200 {
			run.violate("C15", "r3", "step %d: /pipelines/jobs answered %d", si.N, res.Status)
			return
		}
		var body struct {
			Pipelines []struct {
				Pipeline    string `json:"pipeline"`
				Schedulable bool   `json:"schedulable"`
				Running     bool   `json:"running"`
			} `json:"pipelines"`
			Jobs []struct {
				ID      string    `json:"id"`
				Created time.Time `json:"created"`
			} `json:"jobs"`
		}
		if err := json.Unmarshal([]byte(res.Body), &body); err != nil {
			run.violate("C15", "r3", "step %d: /pipelines/jobs body does not parse: %v", si.N, err)
			return
		}
		// The handler may take its snapshot of the jobs at any instant between the arrival of the request and its
		// answer (today: in the last step; a version that gathers the two parts concurrently: earlier). Demanded is
		// what holds for every such instant: every job reported when the request arrived and still reported when it
		// is answered is listed, nothing is listed twice, and nothing is listed that was never accepted.
		listed := map[string]bool{}
		for _, bj := range body.Jobs {
			name := bj.ID
			if id, err := uuidFromString(bj.ID); err == nil {
				name = jobName(id)
			}
			if listed[name] {
				run.violate("C15", "r3", "step %d: /pipelines/jobs lists job %s twice", si.N, name)
			}
			listed[name] = true
			if m.acc[name] == nil && post.Jobs[name] == nil && pre.Jobs[name] == nil {
				run.violate("C15", "r3", "step %d: /pipelines/jobs lists job %s, which was never accepted", si.N, name)
			}
		}
		if atStart := m.listOps[res.Client]; atStart != nil {
			for _, name := range sortedNameSet(atStart) {
				if post.Jobs[name] != nil && pre.Jobs[name] != nil && !listed[name] {
					run.violate("C15", "r3", "step %d: /pipelines/jobs does not list job %s, which was reported before the request arrived and still is", si.N, name)
					break
				}
			}
		}
		delete(m.listOps, res.Client)
		// the pipelines part: what it says must have been true at some instant between arrival and answer
		if from, ok := m.listStart[res.Client]; ok && run.cur.shutdownBegun == 0 {
			var got []PipeInfo
			for _, bp := range body.Pipelines {
				got = append(got, PipeInfo{bp.Pipeline, bp.Schedulable, bp.Running})
			}
			g := canonPipes(got)
			match := g == canonPipes(post.Pipelines) || g == canonPipes(pre.Pipelines)
			for st := from; st < len(m.pipeHist) && !match; st++ {
				match = m.pipeHist[st] == g
			}
			if !match && from < len(m.pipeHist) {
				run.violate("C15", "r2h", "step %d: the pipelines part of /pipelines/jobs (%s) was true at no instant between the arrival of the request (step %d: %s) and its answer (%s)", si.N, g, from, m.pipeHist[from], canonPipes(post.Pipelines))
			}
			run.probe("http_list_pipelines_part_checked")
		}
		delete(m.listStart, res.Client)
		for i := 1; i < len(body.Jobs); i++ {
			if body.Jobs[i].Created.After(body.Jobs[i-1].Created) {
				run.violate("C15", "r3o", "step %d: /pipelines/jobs is not ordered newest first at position %d", si.N, i)
			}
		}
		// (the pipelines part of this response was computed in an earlier step than the jobs part; it is
		// compared with the state of its own instant by the direct list operation, not here)
		run.probe("http_list")
		return
	}
	if fmt.Sprint(res.List) != fmt.Sprint(pre.Pipelines) {
		run.violate("C15", "r2", "step %d: ListPipelines result %v differs from the state at the same instant %v", si.N, res.List, pre.Pipelines)
	}
}

// ---------------------------------------------------------------------------
// C16 r3 and definition bookkeeping

func (m *monState) checkReload(si *StepInfo, res *OpResult, pre, post *Snap) {
	run := m.run
	w := run.cur
	nd := run.sc.Defs[res.Op.Defs]
	names := map[string]bool{}
	for _, p := range w.defs.Pipelines {
		names[p.Name] = true
	}
	for _, p := range nd.Pipelines {
		names[p.Name] = true
	}
	for n := range names {
		if pipeKey(w.defs.pipe(n)) != pipeKey(nd.pipe(n)) {
			m.defChanged[n] = si.N
			m.lastReload = si.N
		}
		if nd.pipe(n) == nil {
			m.undefinedAt[n] = si.N // the pipeline does not "remain defined" for jobs accepted before this step
		}
	}
	w.defs = cloneDefSet(nd)
	w.defsIx = res.Op.Defs
	for name, pj := range pre.Jobs {
		if nj := post.Jobs[name]; nj == nil || nj.digest() != pj.digest() {
			run.violate("C16", "r3", "step %d: reload changed job %s (before %s, after %s)", si.N, name, brief(pj), state(nj))
		}
	}
	for _, j := range pre.Jobs {
		if j.Waiting() {
			run.probe("reload_while_queued")
			break
		}
	}
	for _, j := range pre.Jobs {
		if j.Running() {
			run.probe("reload_while_running")
			break
		}
	}
}

// ---------------------------------------------------------------------------
// invariants checked on every state

func (m *monState) checkInvariants(si *StepInfo, pre, post *Snap) {
	run := m.run
	w := run.cur
	// C15 r2: listed running <=> some job running; C15 r3: accepted jobs stay visible
	for _, pi := range post.Pipelines {
		if got := post.running(pi.Pipeline) > 0; got != pi.Running {
			run.violate("C15", "r2", "step %d (%s): pipeline %s listed running=%v but %d of its jobs are started and unfinished", si.N, si.Name, pi.Pipeline, pi.Running, post.running(pi.Pipeline))
		}
	}
	for _, name := range m.order {
		a := m.acc[name]
		if a.World != w.id {
			continue
		}
		if _, gone := m.removed[name]; gone {
			continue
		}
		j := post.Jobs[name]
		if j == nil {
			if si.InSave {
				m.removed[name] = si.N
				continue
			}
			run.violate("C15", "r3", "step %d (%s): accepted job %s is no longer reported (and no save removed it)", si.N, si.Name, name)
			m.removed[name] = si.N
			continue
		}
		// C15 r4
		if j.Start != nil && j.Start.Before(j.Created) || j.End != nil && j.Start != nil && j.End.Before(*j.Start) {
			run.violate("C15", "r4", "step %d: job %s has created/start/end out of order", si.N, name)
		}
		for _, t := range j.Tasks {
			if t.Start != nil && t.End != nil && t.End.Before(*t.Start) {
				run.violate("C15", "r4", "step %d: task %s/%s ends before it starts", si.N, name, t.Name)
			}
		}
		// C08 r5
		if j.Completed {
			for _, t := range j.Tasks {
				if t.Status == "running" {
					run.violate("C08", "r5", "step %d (%s): job %s is completed but task %s is reported running", si.N, si.Name, name, t.Name)
				}
			}
		}
	}
	// C05 r4: waiting <= queue_limit (<= 1 under replace), definition unchanged since the oldest waiting job
	for _, p := range w.defs.Pipelines {
		waiting := post.waiting(p.Name)
		if len(waiting) == 0 {
			continue
		}
		oldest := m.acc[waiting[0].Name]
		if oldest == nil || !m.defUnchangedSince(p.Name, oldest.Step) {
			continue
		}
		if p.QueueLimit != nil && len(waiting) > *p.QueueLimit {
			run.violate("C05", "r4", "step %d (%s): %d jobs of pipeline %s are waiting, queue_limit is %d", si.N, si.Name, len(waiting), p.Name, *p.QueueLimit)
		}
		if p.Replace && len(waiting) > 1 {
			run.violate("C05", "r4", "step %d (%s): %d jobs of pipeline %s are waiting under queue_strategy replace", si.N, si.Name, len(waiting), p.Name)
			run.violate("C07", "r4", "step %d (%s): under queue_strategy replace %d jobs of pipeline %s are waiting (%s is older than the most recently accepted one and was not displaced)", si.N, si.Name, len(waiting), p.Name, waiting[0].Name)
		}
	}
	// C15 r5: task order depends only on the definition, dependencies first
	for _, name := range post.sortedNames() {
		j := post.Jobs[name]
		a := m.acc[name]
		if a == nil || a.Step != si.N {
			continue
		}
		order := ""
		pos := map[string]int{}
		for i, t := range j.Tasks {
			order += t.Name + ","
			pos[t.Name] = i
		}
		if !a.Cyclic {
			for _, t := range j.Tasks {
				for _, d := range t.DependsOn {
					if pos[d] > pos[t.Name] {
						run.violate("C15", "r5", "step %d: job %s lists task %s before its dependency %s", si.N, name, t.Name, d)
					}
				}
			}
		}
		k := pipeKey(&a.Def)
		if prev, ok := m.taskOrderByDef[k]; ok && prev != order {
			run.violate("C15", "r5", "step %d: job %s lists its tasks as %s, an earlier job of the same definition as %s", si.N, name, order, prev)
		}
		m.taskOrderByDef[k] = order
	}
}

// ---------------------------------------------------------------------------
// settled states: C03 r2 / C07 r2

func (m *monState) onSettled() {
	run := m.run
	w := run.cur
	if w == nil || w.isDead() || w.shutdownBegun > 0 {
		return
	}
	s := run.pre
	for _, p := range w.defs.Pipelines {
		waiting := s.waiting(p.Name)
		if len(waiting) == 0 {
			continue
		}
		head := waiting[0]
		a := m.acc[head.Name]
		if a == nil || !m.defUnchangedSince(p.Name, a.Step) {
			continue
		}
		d := time.Duration(a.Def.StartDelayMs) * time.Millisecond
		if s.running(p.Name) < p.Concurrency && s.At-a.At > d+time.Millisecond {
			// the head is eligible and a slot is free, in a state where nothing is left to run
			rule, prop := "r2", "C03"
			if d > 0 {
				prop = "C07"
			}
			run.violate(prop, rule, "settled state at step %d: pipeline %s has a free slot (%d of %d running) and its longest-waiting job %s has waited %v (start_delay %v) but is not started", run.step, p.Name, s.running(p.Name), p.Concurrency, head.Name, s.At-a.At, d)
		}
		run.probe("settled_with_waiting")
	}
	// C15 r1 is checked by the probe step that follows
	if run.sc.Cfg.PersistCheck && s.At-m.lastChangeAt >= 6100*time.Millisecond {
		m.checkPersistLiveness()
	}
}

// ---------------------------------------------------------------------------
// end of run (after the drain phase)

func (m *monState) onEnd() {
	m.checkPendingLogRemovals(nil, true)
	run := m.run
	w := run.cur
	if w == nil || w.isDead() || !run.stats.Drained {
		return
	}
	s := run.pre
	// C11 r2b: what the store holds after Shutdown has returned stays the final state (a save that was in flight
	// must not land afterwards with an older snapshot)
	if w.shutdownReturned > 0 && w.mem != nil && run.sc.Cfg.PSaveErr == 0 {
		if d := diffStore(w.mem.last(), s); d != "" {
			// the same distinction as at the return of Shutdown (r2 / r2i, known finding F12)
			lastIx, newer := w.mem.completed[len(w.mem.completed)-1], -1
			for _, k := range w.mem.completed {
				if k > lastIx {
					newer = k
				}
			}
			if newer >= 0 && diffStore(w.mem.handed[newer].Data, s) == "" {
				run.violate("C11", "r2i", "end of the run, Shutdown had returned at step %d: the store holds an older snapshot than the reported state: two saves overlapped and completed in inverted order (snapshot #%d, built at step %d, was written after snapshot #%d, built at step %d, which matches the reported state, and the state changed in between): %s", w.shutdownReturned, lastIx, w.mem.handed[lastIx].Step, newer, w.mem.handed[newer].Step, d)
			} else {
				run.violate("C11", "r2b", "Shutdown returned at step %d with the store matching the final state, but at the end of the run the last completed save holds something else: %s", w.shutdownReturned, d)
			}
		}
		run.probe("store_checked_after_shutdown")
	}
	for _, name := range m.order {
		a := m.acc[name]
		if a.World != w.id {
			continue
		}
		j := s.Jobs[name]
		if j == nil {
			continue // removed by retention
		}
		def := w.defs.pipe(a.Pipeline)
		// C03 r1 (the pipeline must have remained defined since the job was accepted)
		if def != nil && j.Waiting() && m.undefinedAt[a.Pipeline] < a.Step {
			run.violate("C03", "r1", "after the drain phase job %s of pipeline %s (accepted at step %d) has neither started nor been canceled", name, a.Pipeline, a.Step)
			if m.defChanged[a.Pipeline] > a.Step {
				run.violate("C16", "r4", "job %s of pipeline %s was accepted at step %d, the definitions were replaced at step %d (the pipeline stayed defined), and after the drain phase the job has neither started nor been canceled", name, a.Pipeline, a.Step, m.defChanged[a.Pipeline])
			}
		}
		// a job that never started never ran anything (replaced, canceled while waiting, refused at start)
		if j.Start == nil {
			if n := len(m.events(name, "run-enter")); n > 0 {
				run.violate("C07", "r3", "job %s is reported as never started (%s) but %d of its tasks ran", name, brief(j), n)
				run.violate("C04", "r1", "job %s is reported as never started (%s) but %d of its tasks ran", name, brief(j), n)
			}
		}
		if j.Running() {
			run.violate("C03", "r1b", "after the drain phase job %s is still reported running", name)
		}
		enters := m.events(name, "run-enter")
		// C02 r4a: every acyclic graph is accepted (a job that was refused at its start carries an error and no start time)
		endedWaiting := m.replaced[name] || w.shutdownBegun > 0
		for _, c := range m.cancels {
			if c.Job == name && !c.WasStarted {
				endedWaiting = true
			}
		}
		if !a.BadGraph && j.Start == nil && j.Canceled && j.HasError && !endedWaiting {
			run.violate("C02", "r4", "job %s has an acyclic task graph (%s) but was refused when it should start: %s", name, graphString(&a.Def), j.LastError)
		}
		// C02 r5
		if a.BadGraph {
			// (the error text is demanded only when the job itself was refused at its start, see checkSchedule
			// and checkStart; a job canceled or replaced while it waited carries no error)
			if len(enters) > 0 || j.Start != nil || !j.Canceled && def != nil && m.undefinedAt[a.Pipeline] < a.Step {
				run.violate("C02", "r5", "job %s with an unbuildable graph: %d tasks ran, reported %s err=%q", name, len(enters), brief(j), j.LastError)
			}
			continue
		}
		// plain success => every task ran exactly once to success (C02 r3, C08 r4)
		if j.Completed && !j.Canceled && !j.HasError {
			for _, t := range j.Tasks {
				n, okc := 0, 0
				for _, e := range m.evByJob[name] {
					if e.Task != t.Name {
						continue
					}
					if e.Kind == "run-enter" {
						n++
					}
					if e.Kind == "run-exit" && okExit(e.Arg) {
						okc++
					}
				}
				if arg, _ := m.exitOf(name, t.Name); arg == "ioerr-allowed" && n == 0 && okc == 1 {
					continue // failed with allow_failure before its first command
				}
				if n != 1 || okc != 1 {
					run.violate("C08", "r4", "job %s is reported completed without error but task %s ran %d times and finished successfully %d times", name, t.Name, n, okc)
					run.violate("C02", "r3", "job %s is reported completed without error but task %s ran %d times and finished successfully %d times", name, t.Name, n, okc)
				}
			}
		}
		// C02 r4: an acyclic job that nobody cancelled and in which nothing failed runs to completion
		cancelled := false
		for _, c := range m.cancels {
			if c.Job == name {
				cancelled = true
			}
		}
		failed := false
		for _, e := range m.events(name, "run-exit") {
			if !okExit(e.Arg) {
				failed = true
			}
		}
		if def != nil && !cancelled && !failed && !m.forcedCancel[name] && w.shutdownBegun == 0 && j.Start != nil {
			if !(j.Completed && !j.Canceled && !j.HasError) {
				run.violate("C02", "r4", "job %s (acyclic, nothing failed, never canceled) ended as %s err=%q", name, brief(j), j.LastError)
			}
		}
		m.checkCancelOutcome(name, j)
		m.checkFailureOutcome(name, j, a)
	}
}

func (m *monState) checkCancelOutcome(name string, j *JobSnap) {
	run := m.run
	if st, ok := m.forcedAt[name]; ok && run.stats.Drained && m.worldOfJob[name] == run.cur.id && len(m.events(name, "cancel-delivered")) == 0 {
		run.violate("C11", "r6b", "forced shutdown: job %s had a task running when the deadline passed (step %d), it is reported %s, but its tasks were never told to stop (they ran to their natural end)", name, st, brief(j))
	}
	for _, c := range m.cancels {
		if c.Job != name || c.World != run.cur.id {
			continue
		}
		if !c.WasStarted {
			if n := len(m.events(name, "run-enter")); n > 0 {
				run.violate("C04", "r1", "job %s was canceled at step %d before it started, yet %d tasks ran", name, c.Step, n)
			}
			if !j.Canceled {
				run.violate("C04", "r4", "job %s was canceled at step %d while waiting but ends as %s", name, c.Step, brief(j))
			}
			continue
		}
		if c.TaskRunning && len(m.events(name, "cancel-delivered")) == 0 {
			run.violate("C04", "r2", "cancel of running job %s was acknowledged at step %d but its tasks were never told to stop", name, c.Step)
		}
		if !j.Canceled {
			rule := "r4"
			if c.AllTasksDone {
				rule = "r4b"
			}
			run.violate("C04", rule, "cancel of running job %s was acknowledged at step %d but the job ends as %s err=%q", name, c.Step, brief(j), j.LastError)
		}
	}
}

func (m *monState) checkFailureOutcome(name string, j *JobSnap, a *acceptInfo) {
	run := m.run
	ff, failed := m.firstFail[name]
	if !failed || !m.defUnchangedSince(a.Pipeline, a.Step) {
		return
	}
	explicit := false
	for _, c := range m.cancels {
		if c.Job == name {
			explicit = true
		}
	}
	plain := j.Completed && !j.Canceled && !j.HasError
	anyErr := false
	for _, t := range j.Tasks {
		anyErr = anyErr || t.Errored
	}
	if !a.Def.ContinueOnFail {
		if plain && !anyErr {
			run.violate("C08", "r2", "job %s had a failing task at step %d (fail-fast) but is reported as a plain success", name, ff)
		}
		if !j.HasError && !anyErr {
			run.violate("C08", "r2", "job %s had a failing task at step %d but reports neither an error nor an errored task", name, ff)
		}
		// other running tasks are told to stop - those that were executing when the failure was handled and those
		// that begin to execute afterwards (without continue_running_tasks_after_failure the failure stops the job;
		// a task inside Run whose start has not been reported yet is as much "running" as one whose start has)
		running, later := false, ""
		for _, e := range m.evByJob[name] {
			if e.Kind == "run-enter" {
				if _, ok := m.exitOf(name, e.Task); !ok || m.exitStep(name, e.Task) > ff {
					running = true
					if e.Step > ff && later == "" {
						later = e.Task
					}
				}
			}
		}
		if running && len(m.events(name, "cancel-delivered")) == 0 {
			if later != "" {
				run.violate("C08", "r2c", "job %s: a task failed at step %d (fail-fast); task %s began to execute after that and the job's tasks were never told to stop", name, ff, later)
			} else {
				run.violate("C08", "r2c", "job %s: a task failed at step %d while others were running, but they were never told to stop", name, ff)
			}
		}
		run.probe("failfast_failure")
	} else {
		if !explicit && !m.forcedCancel[name] && len(m.events(name, "cancel-delivered")) > 0 {
			run.violate("C08", "r3", "job %s has continue_running_tasks_after_failure, yet its tasks were told to stop after the failure at step %d", name, ff)
		}
		if !explicit && !m.forcedCancel[name] && run.cur.shutdownBegun == 0 {
			for _, t := range j.Tasks {
				if m.hasBadAncestor(j, t.Name, map[string]bool{}) {
					continue
				}
				if len(m.eventsFor(name, "run-enter", t.Name)) == 0 && len(m.eventsFor(name, "run-exit", t.Name)) == 0 {
					run.violate("C08", "r3", "job %s has continue_running_tasks_after_failure, task %s does not depend on a failed task but never ran", name, t.Name)
				}
			}
		}
		if plain && !anyErr {
			run.violate("C08", "r2", "job %s had a failing task at step %d but is reported as a plain success", name, ff)
		}
		run.probe("continue_after_failure")
	}
}

func (m *monState) exitStep(job, task string) int {
	for _, e := range m.evByJob[job] {
		if e.Kind == "run-exit" && e.Task == task {
			return e.Step
		}
	}
	return 1 << 30
}

func (m *monState) eventsFor(job, kind, task string) (res []Event) {
	for _, e := range m.evByJob[job] {
		if e.Kind == kind && e.Task == task {
			res = append(res, e)
		}
	}
	return
}

// hasBadAncestor: some (transitive) dependency did not finish successfully.
func (m *monState) hasBadAncestor(j *JobSnap, task string, seen map[string]bool) bool {
	t := j.task(task)
	if t == nil || seen[task] {
		return false
	}
	seen[task] = true
	for _, dep := range t.DependsOn {
		if arg, ok := m.exitOf(j.Name, dep); ok && !okExit(arg) {
			return true
		}
		if m.hasBadAncestor(j, dep, seen) {
			return true
		}
	}
	return false
}


func sortedJobNames(m map[string]*JobSnap) []string {
	ks := make([]string, 0, len(m))
	for k := range m {
		ks = append(ks, k)
	}
	sort.Strings(ks)
	return ks
}


func graphString(p *PipeS) string {
	var parts []string
	for _, t := range p.Tasks {
		parts = append(parts, t.Name+"<-["+strings.Join(t.DependsOn, ",")+"]")
	}
	return strings.Join(parts, " ")
}


func (m *monState) pipelineOfExec(job string, post *Snap) string {
	if a := m.acc[job]; a != nil {
		return a.Pipeline
	}
	if j := post.Jobs[job]; j != nil {
		return j.Pipeline
	}
	if j := m.lastSeen[job]; j != nil {
		return j.Pipeline
	}
	return ""
}
