//go:build !race

package sim

const raceBuild = false

func raceOff() {}
func raceOn()  {}
