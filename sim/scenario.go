package sim

import (
	"fmt"
	"math/rand/v2"
	"sort"
	"time"

	"github.com/Flowpack/prunner/definition"
)

// Scenario is everything about a run that is not a scheduling choice. It is
// written out in full in replay files so that the minimiser can edit it.
type Scenario struct {
	Profile string     `json:"profile"`
	Defs    []DefSet   `json:"defs"` // Defs[0] is installed at start, the others by reload ops
	Clients [][]Op     `json:"clients"`
	Cfg     RunConfig  `json:"cfg"`
	Fates   []TaskFate `json:"fates,omitempty"` // per (pipeline, task): forced outcome
	Store   *StoreScenario `json:"store_scenario,omitempty"` // engine B1 (C09) instead of engine A
	Reload  *ReloadScenario `json:"reload_scenario,omitempty"` // reload-loop engine (C17) instead of engine A
	Late    *LateScenario `json:"late_writer_scenario,omitempty"` // C19 r6, real clock: a background command writes after its task has ended
	Proc    *ProcScenario `json:"proc_scenario,omitempty"` // engine C, real clock (C20) instead of engine A
	ProcEnv map[string]string    `json:"process_env,omitempty"` // engine C (C18): environment of the prunner process
	Outputs map[string][]OutSpec `json:"outputs,omitempty"`     // engine C (C19): pipeline/task -> what each command writes
}

type DefSet struct {
	Pipelines []PipeS `json:"pipelines"`
}

type PipeS struct {
	Name           string            `json:"name"`
	Concurrency    int               `json:"concurrency"`
	QueueLimit     *int              `json:"queue_limit,omitempty"`
	Replace        bool              `json:"replace,omitempty"`
	StartDelayMs   int               `json:"start_delay_ms,omitempty"`
	ContinueOnFail bool              `json:"continue_after_failure,omitempty"`
	RetCount       int               `json:"retention_count,omitempty"`
	RetPeriodMs    int               `json:"retention_period_ms,omitempty"`
	Env            map[string]string `json:"env,omitempty"`
	Tasks          []TaskS           `json:"tasks"`
}

type TaskS struct {
	Name         string            `json:"name"`
	DependsOn    []string          `json:"depends_on,omitempty"`
	AllowFailure bool              `json:"allow_failure,omitempty"`
	Script       []string          `json:"script,omitempty"`
	EmptyScript  bool              `json:"empty_script,omitempty"` // a task without commands (legal)
	Env          map[string]string `json:"env,omitempty"`
}

// script returns the commands of the task as they appear in the definition.
func (t *TaskS) script() []string {
	if t.EmptyScript {
		return []string{}
	}
	if len(t.Script) == 0 {
		return []string{"run " + t.Name}
	}
	return t.Script
}

// TaskFate forces the outcome of a task whenever it executes (the tape is not
// consulted): "ok", "fail". Anything else / absent: drawn from the tape.
type TaskFate struct {
	Pipeline string `json:"pipeline"`
	Task     string `json:"task"`
	Fate     string `json:"fate"`
}

type Op struct {
	Kind     string                 `json:"kind"` // schedule cancel read list iterate save reload shutdown crash
	Pipeline string                 `json:"pipeline,omitempty"`
	Job      int                    `json:"job,omitempty"`  // acceptance number of the target job (cancel, read)
	Vars     map[string]interface{} `json:"vars,omitempty"` // schedule
	User     string                 `json:"user,omitempty"`
	Defs     int                    `json:"defs,omitempty"`        // reload: index into Scenario.Defs
	Forced   bool                   `json:"forced,omitempty"`      // shutdown: context with deadline
	AfterMs  int                    `json:"deadline_ms,omitempty"` // shutdown: deadline
	Signal   bool                   `json:"signal,omitempty"`      // shutdown: cancel the runner context first (as the binary does)
	HTTP     bool                   `json:"http,omitempty"`        // go through the HTTP handler
	// kind "http" (C14): an arbitrary route with an arbitrary credential
	Route     int    `json:"route,omitempty"`     // index into the routes discovered from the router (modulo their number)
	Cred      string `json:"cred,omitempty"`      // credential class, see credClasses
	Transport string `json:"transport,omitempty"` // header (default) | header_lower | cookie
	ExpS      int    `json:"exp_s,omitempty"`     // exp claim, seconds after the start of the run (0: none)
	NbfS      int    `json:"nbf_s,omitempty"`     // nbf claim, seconds after the start of the run (0: none)
	IatS      int    `json:"iat_s,omitempty"`     // iat claim, seconds after the start of the run (0: none)
	PathStyle int    `json:"path_style,omitempty"` // 0: the route as registered; >0: an unusual spelling of its path (see oddPath)
}

// slowPoints: hook points one of which a run may stall (RunConfig.SlowPoint).
var slowPoints = []string{"JobCompleted", "JobCompleted", "HandleTaskChange", "HandleStageChange", "StartDelayedJob", "cancel.go", "sched.loop", "sched.loop",
	"stage.go", "ScheduleAsync", "CancelJob", "SaveToStore", "task.exec", "store.save", "ReplaceDefinitions"}

// RunConfig: fault kinds, weights and component selection of a run (swarm style).
type RunConfig struct {
	Store     string `json:"store"` // none | mem | json
	Logs      bool   `json:"logs,omitempty"`
	MaxSteps  int    `json:"max_steps"`
	HTTP      bool   `json:"http,omitempty"` // build the HTTP server
	WParked   int    `json:"w_parked"`       // weight of releasing one parked goroutine
	WClient   int    `json:"w_client"`       // weight of starting a client op
	WAdvance  int    `json:"w_advance"`      // weight of letting time pass
	WSettle   int    `json:"w_settle"`       // weight of a settle-and-check action
	WCrash    int    `json:"w_crash,omitempty"`
	StoreOrder uint64 `json:"store_order,omitempty"` // the order in which jobs appear in a saved snapshot is Go map order in the runner; the harness store re-orders every snapshot by this seed instead, so that what a restart loads - order included - is a function of the scenario
	SlowPoint string `json:"slow_point,omitempty"` // swarm: goroutines parked at this hook point are released 8 times less often (a stalled step widens the windows around it)
	PFail     int    `json:"p_fail,omitempty"`      // per mille: a task fails
	PExit0    int    `json:"p_exit0,omitempty"`     // per mille: a cancelled task still exits 0
	PIOErr    int    `json:"p_ioerr,omitempty"`     // per mille: log writer cannot be opened
	PSaveErr  int    `json:"p_saveerr,omitempty"`   // per mille: a store save fails
	PUUIDErr  int    `json:"p_uuiderr,omitempty"`   // per mille: id generation fails
	PRemErr   int    `json:"p_removeerr,omitempty"` // per mille: log removal fails
	TapeTasks bool   `json:"tape_tasks,omitempty"`  // false: tasks succeed unless a fate says otherwise
	Readers   bool   `json:"readers_inside,omitempty"`
	PollMs    int    `json:"shutdown_poll_ms,omitempty"`
	Profiling bool   `json:"profiling,omitempty"` // HTTP server built with the profiling routes enabled
	RealRunner bool  `json:"real_runner,omitempty"` // engine C: the real taskctl.TaskRunner and real child processes
	NoOracle  bool   `json:"no_oracle,omitempty"` // race configuration: the driver makes no calls into the runner
	PersistCheck bool `json:"persist_check,omitempty"` // settle actions wait three persist pauses and compare store and API
}

func (p PipeS) toDef() definition.PipelineDef {
	d := definition.PipelineDef{
		Concurrency:                      p.Concurrency,
		QueueLimit:                       copyInt(p.QueueLimit),
		StartDelay:                       time.Duration(p.StartDelayMs) * time.Millisecond,
		ContinueRunningTasksAfterFailure: p.ContinueOnFail,
		RetentionCount:                   p.RetCount,
		RetentionPeriod:                  time.Duration(p.RetPeriodMs) * time.Millisecond,
		Env:                              copyEnv(p.Env), // nothing of the scenario is shared with the code under test: a version
		Tasks:                            map[string]definition.TaskDef{}, // that writes into its definitions must not rewrite the scenario
	}
	if p.Replace {
		d.QueueStrategy = definition.QueueStrategyReplace
	}
	for _, t := range p.Tasks {
		d.Tasks[t.Name] = definition.TaskDef{Script: append([]string(nil), t.script()...), DependsOn: append([]string(nil), t.DependsOn...), AllowFailure: t.AllowFailure, Env: copyEnv(t.Env)}
	}
	return d
}

func copyInt(p *int) *int {
	if p == nil {
		return nil
	}
	v := *p
	return &v
}

func copyEnv(m map[string]string) map[string]string {
	if m == nil {
		return nil
	}
	c := make(map[string]string, len(m))
	for k, v := range m {
		c[k] = v
	}
	return c
}

func (d DefSet) toDefs() *definition.PipelinesDef {
	res := &definition.PipelinesDef{Pipelines: map[string]definition.PipelineDef{}}
	for _, p := range d.Pipelines {
		res.Pipelines[p.Name] = p.toDef()
	}
	return res
}

func (d DefSet) pipe(name string) *PipeS {
	for i := range d.Pipelines {
		if d.Pipelines[i].Name == name {
			return &d.Pipelines[i]
		}
	}
	return nil
}

func (p *PipeS) task(name string) *TaskS {
	for i := range p.Tasks {
		if p.Tasks[i].Name == name {
			return &p.Tasks[i]
		}
	}
	return nil
}

// hasCycle reports whether the depends_on graph of p has a cycle.
func (p *PipeS) hasCycle() bool {
	state := map[string]int{}
	var visit func(n string) bool
	visit = func(n string) bool {
		switch state[n] {
		case 1:
			return true
		case 2:
			return false
		}
		state[n] = 1
		if t := p.task(n); t != nil {
			for _, d := range t.DependsOn {
				if visit(d) {
					return true
				}
			}
		}
		state[n] = 2
		return false
	}
	for _, t := range p.Tasks {
		if visit(t.Name) {
			return true
		}
	}
	return false
}

// ---------------------------------------------------------------------------
// generation

type gen struct {
	r *rand.Rand
}

func (g gen) n(n int) int { return g.r.IntN(n) }
func (g gen) p(permille int) bool {
	return g.r.IntN(1000) < permille
}
func (g gen) oneOf(xs ...int) int { return xs[g.r.IntN(len(xs))] }

var taskNames = []string{"a", "b", "c", "d", "e", "f", "g", "h"}

// graph generates a task graph with n tasks. kind: 0 random DAG, 1 chain, 2 diamond-ish, 3 independent.
func (g gen) graph(n int, cyclePermille int) []TaskS {
	ts := make([]TaskS, n)
	for i := range ts {
		ts[i].Name = taskNames[i]
	}
	kind := g.n(4)
	if n >= 5 && g.p(500) {
		kind = 0 // larger graphs: mostly irregular ones (joins over paths of different depth)
	}
	for i := 1; i < n; i++ {
		switch kind {
		case 0:
			for j := 0; j < i; j++ {
				if g.p(400) {
					ts[i].DependsOn = append(ts[i].DependsOn, ts[j].Name)
				}
			}
		case 1:
			ts[i].DependsOn = []string{ts[i-1].Name}
		case 2:
			if i == n-1 && n > 2 {
				for j := 1; j < i; j++ {
					ts[i].DependsOn = append(ts[i].DependsOn, ts[j].Name)
				}
			} else {
				ts[i].DependsOn = []string{ts[0].Name}
			}
		case 3:
		}
	}
	// names are assigned so that alphabetical order is not always topological order
	if g.p(500) {
		perm := g.r.Perm(n)
		ren := map[string]string{}
		for i, t := range ts {
			ren[t.Name] = taskNames[perm[i]]
		}
		for i := range ts {
			ts[i].Name = ren[ts[i].Name]
			for k, d := range ts[i].DependsOn {
				ts[i].DependsOn[k] = ren[d]
			}
		}
		sort.Slice(ts, func(i, j int) bool { return ts[i].Name < ts[j].Name })
	}
	if g.p(100) && n > 1 { // duplicate dependency entry: legal
		i := 1 + g.n(n-1)
		if len(ts[i].DependsOn) > 0 {
			ts[i].DependsOn = append(ts[i].DependsOn, ts[i].DependsOn[0])
		}
	}
	if g.p(cyclePermille) {
		if n == 1 || g.p(300) {
			i := g.n(n)
			ts[i].DependsOn = append(ts[i].DependsOn, ts[i].Name) // self loop
		} else {
			// back edge: make an earlier task depend on a later one that (transitively or not) depends on it
			i := g.n(n - 1)
			j := i + 1 + g.n(n-1-i)
			ts[i].DependsOn = append(ts[i].DependsOn, ts[j].Name)
			if !contains(ts[j].DependsOn, ts[i].Name) {
				ts[j].DependsOn = append(ts[j].DependsOn, ts[i].Name)
			}
		}
	}
	return ts
}

func contains(xs []string, x string) bool {
	for _, y := range xs {
		if y == x {
			return true
		}
	}
	return false
}

type genOpts struct {
	maxPipes, maxTasks       int
	delayPermille            int
	cyclePermille            int
	replacePermille          int
	allowFailPermille        int
	contPermille             int
	retention                bool
	concChoices, delayChoice []int
	qlChoices                []int // -1 = unset
}

func (g gen) pipeline(name string, o genOpts) PipeS {
	p := PipeS{Name: name}
	p.Concurrency = o.concChoices[g.n(len(o.concChoices))]
	ql := o.qlChoices[g.n(len(o.qlChoices))]
	if ql >= 0 {
		q := ql
		p.QueueLimit = &q
	}
	if g.p(o.delayPermille) && (p.QueueLimit == nil || *p.QueueLimit > 0) {
		p.StartDelayMs = o.delayChoice[g.n(len(o.delayChoice))]
	}
	p.Replace = g.p(o.replacePermille)
	p.ContinueOnFail = g.p(o.contPermille)
	nt := 1 + g.n(o.maxTasks)
	if o.maxTasks >= 6 && g.p(350) {
		nt = 5 + g.n(2)
	}
	p.Tasks = g.graph(nt, o.cyclePermille)
	for i := range p.Tasks {
		if g.p(o.allowFailPermille) {
			p.Tasks[i].AllowFailure = true
		}
		if g.p(100) {
			p.Tasks[i].EmptyScript = true // empty script task
		}
	}
	if o.retention {
		p.RetCount = g.oneOf(0, 1, 1, 2, 5)
		p.RetPeriodMs = g.oneOf(0, 0, 60_000, 3_600_000)
	}
	return p
}

var pipeNames = []string{"p", "q", "s"}

func defaultOpts() genOpts {
	return genOpts{
		maxPipes: 2, maxTasks: 4, delayPermille: 300, cyclePermille: 60, replacePermille: 300,
		allowFailPermille: 150, contPermille: 300,
		concChoices: []int{1, 1, 2, 3}, delayChoice: []int{50, 300, 2000, 10000},
		qlChoices: []int{-1, -1, 0, 1, 2, 3},
	}
}

func simpleVars(g gen, badPermille int) map[string]interface{} {
	if g.p(badPermille) {
		return map[string]interface{}{"__jobID": "x"}
	}
	switch g.n(4) {
	case 0:
		return nil
	case 1:
		return map[string]interface{}{"k": g.n(100)}
	case 2:
		return map[string]interface{}{"s": fmt.Sprintf("v%d", g.n(100)), "b": true}
	default:
		return map[string]interface{}{"list": []interface{}{1, "x"}}
	}
}

// Generate builds the scenario for a seed under a profile (normally the id of
// the property whose check is running; the profile only biases generation, all
// monitors run in every profile).
func Generate(seed uint64, profile string, faults bool) *Scenario {
	if profile == "C09" {
		return generateStore(seed)
	}
	if profile == "C17" {
		return generateReload(seed)
	}
	if profile == "C20" {
		return generateProc(seed)
	}
	if profile == "C18" || profile == "C19" {
		g := gen{rand.New(rand.NewPCG(seed, 0x5245414c))}
		sc := &Scenario{Profile: profile}
		if profile == "C19" && g.p(30) {
			sc.Late = genLate(g)
			sc.Cfg = RunConfig{MaxSteps: 10}
			return sc
		}
		if profile == "C18" {
			generateEnvScenario(g, sc)
		} else {
			generateOutputScenario(g, sc)
		}
		return sc
	}
	g := gen{rand.New(rand.NewPCG(seed, 0x5343454e4152494f))}
	sc := &Scenario{Profile: profile}
	o := defaultOpts()
	cfg := RunConfig{Store: "none", MaxSteps: 1500, WParked: 4, WClient: 3, WAdvance: 2, WSettle: 0}
	nClients := 1 + g.n(3)
	opsPer := 4 + g.n(8)
	badVar := 0
	rich := false
	shutdowns := 0
	gracefulOnly := false
	raise := false // one of the reload variants is the initial definitions with every concurrency limit raised
	mix := map[string]int{"schedule": 10, "cancel": 3, "read": 1, "list": 1}

	switch profile {
	case "C01":
		o.concChoices = []int{1, 2, 2, 3, 3}
		o.qlChoices = []int{-1, -1, 2, 3}
		badVar = 60
		mix["reload"] = 1
		if g.p(300) {
			// pipelines that disappear and come back while their jobs run: needs saves to purge them meanwhile
			cfg.Store = "mem"
			mix["reload"] = 4
			mix["save"] = 3
			o.retention = g.p(300)
		}
	case "C02":
		o.maxTasks = 6
		o.cyclePermille = 120
		o.delayPermille = 100
		mix = map[string]int{"schedule": 10, "cancel": 1}
		badVar = 30
	case "C03":
		o.delayPermille = 600
		o.delayChoice = []int{50, 300, 2000}
		o.qlChoices = []int{-1, -1, 1, 2, 3}
		mix = map[string]int{"schedule": 10, "cancel": 5, "reload": 1}
		badVar = 80
		cfg.WSettle = 1
		if g.p(200) {
			// states reached through a crash and a restart from the last snapshot are reachable states too
			cfg.Store = "mem"
			cfg.WCrash = g.oneOf(0, 1)
			o.retention = g.p(600) // retention must never take a waiting job away
			mix["save"] = 3
		}
	case "C04":
		o.maxTasks = 4
		o.cyclePermille = 0
		mix = map[string]int{"schedule": 8, "cancel": 8, "read": 1}
		cfg.PExit0 = 150
		if g.p(250) {
			shutdowns = 1 // cancels that land while a graceful shutdown waits for running jobs
			gracefulOnly = true
			cfg.PollMs = 200
		}
	case "C05":
		o.maxTasks = 2
		o.cyclePermille = 0
		o.maxPipes = 1
		badVar = 40
		mix = map[string]int{"schedule": 12, "cancel": 4}
		opsPer = 6 + g.n(10)
	case "C06":
		o.qlChoices = []int{-1, -1, 3, 5}
		o.replacePermille = 0
		o.maxTasks = 2
		mix = map[string]int{"schedule": 12, "cancel": 3}
		badVar = 60
		opsPer = 6 + g.n(10)
	case "C07":
		o.delayPermille = 900
		o.replacePermille = 600
		o.qlChoices = []int{-1, -1, 1, 2}
		o.maxTasks = 2
		mix = map[string]int{"schedule": 12, "cancel": 3}
		cfg.WAdvance = 4
		cfg.WSettle = 1
	case "C08":
		o.maxTasks = 6
		o.cyclePermille = 0
		o.allowFailPermille = 300
		o.contPermille = 500
		o.delayPermille = 50
		mix = map[string]int{"schedule": 10, "cancel": 1, "read": 2}
		cfg.HTTP = true
	case "C14":
		cfg.HTTP = true
		cfg.Profiling = g.p(500)
		mix = map[string]int{"schedule": 4, "cancel": 1, "http": 14}
		o.maxPipes = 1
		o.maxTasks = 2
		o.cyclePermille = 0
		o.delayPermille = 100
		cfg.WAdvance = 4
		opsPer = 8 + g.n(10)
	case "C15":
		mix = map[string]int{"schedule": 10, "cancel": 3, "read": 2, "list": 3, "reload": 2, "save": 1}
		cfg.WSettle = 2
		cfg.HTTP = true
		cfg.Store = "mem"
		o.retention = true
		cfg.WCrash = g.oneOf(0, 0, 1)
	case "C10":
		cfg.Store = "json"
		if g.p(300) {
			cfg.Store = "mem"
		}
		cfg.WCrash = 1
		mix = map[string]int{"schedule": 10, "cancel": 3, "save": 2}
		o.retention = g.p(300)
		cfg.HTTP = g.p(300)
		rich = true
		o.delayPermille = 150
	case "C11":
		cfg.Store = "mem"
		if g.p(300) {
			cfg.Store = "json"
		}
		mix = map[string]int{"schedule": 10, "cancel": 2, "save": 2}
		cfg.WSettle = 1
		cfg.PersistCheck = g.p(500)
		if cfg.PersistCheck {
			// "without an explicit save": an explicit SaveToStore that overlaps the persist loop can complete late
			// with an older snapshot; that interplay belongs to C13 (overlapping saves), not to persist liveness
			delete(mix, "save")
		}
		cfg.PollMs = g.oneOf(3000, 3000, 200)
		o.delayPermille = 200
		o.delayChoice = []int{50, 300, 2000}
		shutdowns = 1 + g.n(2)
		if g.p(300) {
			// a reload that raises a concurrency limit leaves a free slot next to a non-empty wait list until the next
			// job event: a shutdown that meets that state must still start none of the waiting jobs
			mix["reload"] = 2
			o.concChoices = []int{1, 1, 1, 2}
			o.qlChoices = []int{-1, -1, 3, 5}
			o.delayPermille = 50
			raise = true
		}
	case "C12":
		cfg.Store = "mem"
		cfg.Logs = true
		o.retention = true
		mix = map[string]int{"schedule": 10, "cancel": 2, "save": 6, "reload": 2}
		cfg.WAdvance = 4
		cfg.WCrash = g.oneOf(0, 0, 1)
		o.delayPermille = 100
		opsPer = 6 + g.n(10)
	case "C13":
		cfg.Store = "mem"
		cfg.Readers = true
		cfg.NoOracle = true
		cfg.HTTP = g.p(600) // the HTTP handlers are the first user of the exported operations: 40% of the requests go through them
		o.retention = true
		mix = map[string]int{"schedule": 8, "cancel": 6, "read": 3, "list": 3, "iterate": 5, "save": 5, "reload": 2}
		nClients = 2 + g.n(3)
		shutdowns = g.n(2)
		o.delayPermille = 200
		o.delayChoice = []int{50, 300}
		cfg.MaxSteps = 600
	case "C16":
		mix = map[string]int{"schedule": 10, "cancel": 2, "reload": 5}
		o.delayPermille = 400
		o.delayChoice = []int{50, 300, 2000}
		cfg.WSettle = 1
	}
	if g.p(400) {
		cfg.SlowPoint = slowPoints[g.n(len(slowPoints))]
	}
	cfg.StoreOrder = g.r.Uint64() | 1
	if faults {
		cfg.PFail = g.oneOf(0, 100, 250)
		cfg.TapeTasks = true
		if profile == "C08" || profile == "C02" {
			cfg.PFail = g.oneOf(150, 300, 450)
			cfg.PIOErr = g.oneOf(0, 100, 200)
		}
		cfg.PExit0 = g.oneOf(0, cfg.PExit0, 100)
		if g.p(300) {
			cfg.PUUIDErr = 100
		}
		if cfg.Store != "none" && g.p(400) {
			cfg.PSaveErr = 150
		}
		if cfg.Logs && g.p(400) {
			cfg.PRemErr = 200
		}
	} else {
		badVar = 0
		o.cyclePermille = 0
	}

	if profile == "C02" && g.p(250) {
		return graphSweep(g, profile)
	}
	np := 1 + g.n(o.maxPipes)
	var ds DefSet
	for i := 0; i < np; i++ {
		ds.Pipelines = append(ds.Pipelines, g.pipeline(pipeNames[i], o))
	}
	sc.Defs = []DefSet{ds}
	// variants for reload
	if mix["reload"] > 0 {
		nv := 1 + g.n(3)
		for v := 0; v < nv; v++ {
			sc.Defs = append(sc.Defs, g.mutateDefs(sc.Defs[g.n(len(sc.Defs))], o, profile))
		}
		if raise {
			nd := cloneDefSet(ds)
			for i := range nd.Pipelines {
				nd.Pipelines[i].Concurrency += 1 + g.n(2)
			}
			sc.Defs = append(sc.Defs, nd)
		}
	}

	// client programmes
	total := 0
	for _, w := range mix {
		total += w
	}
	kinds := make([]string, 0, len(mix))
	for k := range mix {
		kinds = append(kinds, k)
	}
	sort.Strings(kinds)
	scheduled := 0
	var prevAuth []Op
	for c := 0; c < nClients; c++ {
		var prog []Op
		for i := 0; i < opsPer; i++ {
			x := g.n(total)
			var kind string
			for _, k := range kinds {
				if x < mix[k] {
					kind = k
					break
				}
				x -= mix[k]
			}
			if i == 0 && c == 0 {
				kind = "schedule"
			}
			op := Op{Kind: kind}
			switch kind {
			case "schedule":
				op.Pipeline = ds.Pipelines[g.n(len(ds.Pipelines))].Name
				if g.p(20) {
					op.Pipeline = "undefined"
				}
				op.Vars = simpleVars(g, badVar)
				if rich {
					op.Vars = richVars(g)
				}
				op.User = fmt.Sprintf("u%d", g.n(3))
				scheduled++
			case "cancel", "read":
				op.Job = 1 + g.n(scheduled+2)
			case "reload":
				op.Defs = g.n(len(sc.Defs))
				if raise && g.p(600) {
					op.Defs = len(sc.Defs) - 1
				}
			case "http":
				genAuthOp(g, &op, scheduled)
				if len(prevAuth) > 0 && g.p(350) {
					// the same token again (same claims give the same string): a verifier that remembers tokens sees it
					// twice while it is valid and once more after it has expired
					q := prevAuth[g.n(len(prevAuth))]
					op.Cred, op.ExpS, op.NbfS, op.IatS, op.Transport = q.Cred, q.ExpS, q.NbfS, q.IatS, q.Transport
				}
				prevAuth = append(prevAuth, op)
			}
			if cfg.HTTP && g.p(400) && (kind == "schedule" || kind == "cancel" || kind == "read" || kind == "list") {
				op.HTTP = true
			}
			prog = append(prog, op)
		}
		sc.Clients = append(sc.Clients, prog)
	}
	for i := 0; i < shutdowns; i++ {
		c := g.n(len(sc.Clients))
		pos := g.n(len(sc.Clients[c]) + 1)
		op := Op{Kind: "shutdown", Forced: g.p(500) && !gracefulOnly, AfterMs: g.oneOf(0, 1, 50, 200, 1000, 5000), Signal: g.p(500)}
		prog := append([]Op(nil), sc.Clients[c][:pos]...)
		prog = append(prog, op)
		sc.Clients[c] = append(prog, sc.Clients[c][pos:]...)
	}
	// forced fates so that failure scenarios are reached even on zero tapes
	if faults && (profile == "C08" || profile == "C02" || g.p(200)) {
		for _, p := range ds.Pipelines {
			for _, t := range p.Tasks {
				if g.p(200) {
					sc.Fates = append(sc.Fates, TaskFate{p.Name, t.Name, "fail"})
				}
			}
		}
	}
	sc.Cfg = cfg
	return sc
}

// mutateDefs produces a new definition set from an old one by a few edits.
func (g gen) mutateDefs(old DefSet, o genOpts, profile string) DefSet {
	nd := cloneDefSet(old)
	edits := 1 + g.n(3)
	for e := 0; e < edits; e++ {
		if len(nd.Pipelines) == 0 {
			nd.Pipelines = append(nd.Pipelines, g.pipeline(pipeNames[0], o))
			continue
		}
		p := &nd.Pipelines[g.n(len(nd.Pipelines))]
		switch g.n(11) {
		case 0:
			p.Concurrency = o.concChoices[g.n(len(o.concChoices))]
		case 1:
			ql := o.qlChoices[g.n(len(o.qlChoices))]
			if ql < 0 {
				p.QueueLimit = nil
			} else if ql > 0 || p.StartDelayMs == 0 {
				q := ql
				p.QueueLimit = &q
			}
		case 2:
			p.Replace = !p.Replace
		case 3:
			if p.QueueLimit == nil || *p.QueueLimit > 0 {
				p.StartDelayMs = g.oneOf(0, 50, 300, 2000)
			}
		case 4:
			p.ContinueOnFail = !p.ContinueOnFail
		case 5: // add a task
			if len(p.Tasks) < len(taskNames) {
				used := map[string]bool{}
				for _, t := range p.Tasks {
					used[t.Name] = true
				}
				for _, n := range taskNames {
					if !used[n] {
						nt := TaskS{Name: n}
						if len(p.Tasks) > 0 && g.p(500) {
							nt.DependsOn = []string{p.Tasks[g.n(len(p.Tasks))].Name}
						}
						p.Tasks = append(p.Tasks, nt)
						break
					}
				}
			}
		case 6: // remove a task (and references to it)
			if len(p.Tasks) > 1 {
				i := g.n(len(p.Tasks))
				name := p.Tasks[i].Name
				p.Tasks = append(p.Tasks[:i], p.Tasks[i+1:]...)
				for k := range p.Tasks {
					var nd []string
					for _, d := range p.Tasks[k].DependsOn {
						if d != name {
							nd = append(nd, d)
						}
					}
					p.Tasks[k].DependsOn = nd
				}
			}
		case 7: // rewire: replace the graph, keep names count
			p.Tasks = g.graph(len(p.Tasks), 0)
		case 8: // script / env of a task
			t := &p.Tasks[g.n(len(p.Tasks))]
			t.Script = []string{fmt.Sprintf("run %s v%d", t.Name, g.n(1000))}
			t.EmptyScript = false
			if g.p(500) {
				t.Env = map[string]string{"TE": fmt.Sprintf("t%d", g.n(100))}
			}
		case 9:
			p.Env = map[string]string{"PE": fmt.Sprintf("p%d", g.n(100))}
		case 10: // drop or add a pipeline
			if len(nd.Pipelines) > 1 && g.p(500) {
				i := g.n(len(nd.Pipelines))
				nd.Pipelines = append(nd.Pipelines[:i], nd.Pipelines[i+1:]...)
			} else if len(nd.Pipelines) < len(pipeNames) {
				used := map[string]bool{}
				for _, q := range nd.Pipelines {
					used[q.Name] = true
				}
				for _, n := range pipeNames {
					if !used[n] {
						nd.Pipelines = append(nd.Pipelines, g.pipeline(n, o))
						break
					}
				}
			}
		}
	}
	return nd
}

func cloneDefSet(d DefSet) DefSet {
	var nd DefSet
	for _, p := range d.Pipelines {
		q := p
		if p.QueueLimit != nil {
			v := *p.QueueLimit
			q.QueueLimit = &v
		}
		q.Env = cloneMap(p.Env)
		q.Tasks = nil
		for _, t := range p.Tasks {
			u := t
			u.DependsOn = append([]string(nil), t.DependsOn...)
			u.Script = append([]string(nil), t.Script...)
			if t.Script == nil {
				u.Script = nil
			}
			u.Env = cloneMap(t.Env)
			q.Tasks = append(q.Tasks, u)
		}
		nd.Pipelines = append(nd.Pipelines, q)
	}
	return nd
}

func cloneMap(m map[string]string) map[string]string {
	if m == nil {
		return nil
	}
	r := make(map[string]string, len(m))
	for k, v := range m {
		r[k] = v
	}
	return r
}

func derefInt(p *int) int {
	if p == nil {
		return -1
	}
	return *p
}


var richPool = []interface{}{1e-9, 0.1, 1234567.891, 1e21, -0.000123456789, 3.0, 42.0, 0.30000000000000004, 9007199254740993.0,
	1.7976931348623157e308, 5e-324, "", "ünï©ode ✓ 日本", "line\nbreak \"q\" \\ $HOME {{.x}}", true, false, nil,
	[]interface{}{1.5, "x", map[string]interface{}{"n": 2.25}}, map[string]interface{}{"deep": map[string]interface{}{"f": 0.1234567890123}, "e": []interface{}{}}}

// richVars: job variables of every JSON type (C10).
func richVars(g gen) map[string]interface{} {
	n := g.n(5)
	if n == 0 {
		return nil
	}
	m := map[string]interface{}{}
	for i := 0; i < n; i++ {
		key := fmt.Sprintf("v%d", g.n(6))
		if g.p(150) {
			key = []string{"k ü", "q\"uote", "back\\slash", "new\nline", "", "日本"}[g.n(6)]
		}
		m[key] = richPool[g.n(len(richPool))]
	}
	return m
}


// genAuthOp draws a route, a credential class, a transport and - for the classes that are
// time dependent - claims at seeded distances from the start of the run, so that the fake
// clock crosses exp / nbf while requests are being issued.
func genAuthOp(g gen, op *Op, scheduled int) {
	op.Route = g.n(64)
	if g.p(150) {
		op.PathStyle = 1 + g.n(6)
	}
	op.Job = 1 + g.n(scheduled+2)
	op.Cred = credClasses[g.n(len(credClasses))]
	if g.p(350) {
		op.Cred = "valid_window"
	}
	switch g.n(5) {
	case 0:
		op.Transport = "cookie"
	case 1:
		op.Transport = "header_lower"
	}
	near := []int{1, 2, 3, 5, 10, 60, 3600, 7300}
	switch op.Cred {
	case "expired":
		op.ExpS = -near[g.n(len(near))]
	case "not_yet_valid":
		op.NbfS = 100000 + near[g.n(len(near))]
	case "valid":
		if g.p(500) {
			op.ExpS = 10_000_000
		}
	case "valid_window":
		// anything: the oracle computes validity from the instant of the request
		if g.p(700) {
			op.ExpS = near[g.n(len(near))]
		}
		if g.p(500) {
			op.NbfS = near[g.n(len(near))]
		}
	case "wrong_secret", "alg_none", "hs384", "hs512", "rs256_header":
		op.ExpS = 10_000_000
	}
	// an "issued at" claim near the other two: a little after exp (the token expires while its iat is still slightly
	// ahead of the server's clock), a little before nbf, or long ago. It never makes an expired or not-yet-valid token valid.
	switch op.Cred {
	case "expired", "not_yet_valid", "valid", "valid_window":
		switch g.n(6) {
		case 0:
			if op.ExpS != 0 {
				op.IatS = op.ExpS + g.oneOf(1, 5, 30, 55)
			}
		case 1:
			if op.NbfS != 0 {
				op.IatS = op.NbfS - g.oneOf(1, 5, 30)
			}
		case 2:
			op.IatS = -3600
		}
	}
}


// graphSweep: a run that is about the shape of task graphs rather than about interleavings: a dozen
// pipelines with irregular 6-8 task DAGs under shuffled names, each scheduled once and run to completion.
func graphSweep(g gen, profile string) *Scenario {
	sc := &Scenario{Profile: profile}
	var ds DefSet
	var prog []Op
	for i := 0; i < 12; i++ {
		n := 6 + g.n(3)
		ts := make([]TaskS, n)
		perm := g.r.Perm(n)
		pe := 300 + 100*g.n(3)
		for k := 0; k < n; k++ {
			ts[k].Name = taskNames[perm[k]]
			for j := 0; j < k; j++ {
				if g.p(pe) {
					ts[k].DependsOn = append(ts[k].DependsOn, taskNames[perm[j]])
				}
			}
		}
		sort.Slice(ts, func(a, b int) bool { return ts[a].Name < ts[b].Name })
		name := fmt.Sprintf("g%02d", i)
		ds.Pipelines = append(ds.Pipelines, PipeS{Name: name, Concurrency: 1, Tasks: ts})
		prog = append(prog, Op{Kind: "schedule", Pipeline: name, User: "sweep"})
	}
	sc.Defs = []DefSet{ds}
	sc.Clients = [][]Op{prog}
	sc.Cfg = RunConfig{Store: "none", MaxSteps: 3000, WParked: 6, WClient: 2, WAdvance: 1}
	return sc
}
