package sim

import (
	"bytes"
	"crypto/hmac"
	"crypto/sha256"
	"encoding/base64"
	"encoding/json"
	"fmt"
	"net/http"
	"net/http/httptest"
	"sort"
	"strings"
	"time"

	"github.com/go-chi/chi/v5"
	"github.com/go-chi/jwtauth/v5"
)

// C14 (DESIGN §5): HTTP clients against the real handler on the fake clock.

type routeInfo struct {
	Method string
	Path   string
}

// discoverRoutes walks the router of the server (so that routes added later are included).
func discoverRoutes(srv interface{ VerifRoutes() chi.Routes }) []routeInfo {
	var res []routeInfo
	_ = chi.Walk(srv.VerifRoutes(), func(method, route string, _ http.Handler, _ ...func(http.Handler) http.Handler) error {
		route = strings.ReplaceAll(route, "/*/", "/")
		res = append(res, routeInfo{method, route})
		return nil
	})
	sort.Slice(res, func(i, j int) bool {
		if res[i].Path != res[j].Path {
			return res[i].Path < res[j].Path
		}
		return res[i].Method < res[j].Method
	})
	return res
}

func isProfilingRoute(p string) bool { return strings.HasPrefix(p, "/debug") }

// oddPath: unusual spellings of a route's path, as a client can send them (curl --path-as-is).
func oddPath(p string, style int) string {
	switch style {
	case 1:
		return "/debug/.." + p
	case 2:
		return "/debug/pprof/../.." + p
	case 3:
		return "/" + p
	case 4:
		return strings.TrimSuffix(p, "/") + "/"
	case 5:
		return "/." + p
	case 6:
		return "/debug/%2e%2e" + p
	}
	return p
}

// routes that need real time or produce huge output are not requested
func skipRoute(p string) bool {
	return strings.Contains(p, "pprof/profile") || strings.Contains(p, "pprof/trace") || strings.HasSuffix(p, "/*") && !strings.HasPrefix(p, "/debug/pprof")
}

var credClasses = []string{"none", "garbage", "wrong_secret", "alg_none", "hs384", "hs512", "rs256_header", "expired", "not_yet_valid", "valid", "valid_window", "empty_bearer", "truncated"}

func b64(b []byte) string { return base64.RawURLEncoding.EncodeToString(b) }

func rawToken(header, claims map[string]interface{}, secret string) string {
	hb, _ := json.Marshal(header)
	cb, _ := json.Marshal(claims)
	signing := b64(hb) + "." + b64(cb)
	mac := hmac.New(sha256.New, []byte(secret))
	mac.Write([]byte(signing))
	return signing + "." + b64(mac.Sum(nil))
}

// makeToken builds the credential of an op. t0 is the start of the run (claims are absolute times).
// It returns the token and whether the token is of a kind that is valid when nbf <= now < exp.
func makeToken(op Op, t0 time.Time) (string, bool) {
	claims := map[string]interface{}{"sub": "http-user"}
	if op.ExpS != 0 {
		claims["exp"] = t0.Add(time.Duration(op.ExpS) * time.Second).Unix()
	}
	if op.NbfS != 0 {
		claims["nbf"] = t0.Add(time.Duration(op.NbfS) * time.Second).Unix()
	}
	if op.IatS != 0 {
		claims["iat"] = t0.Add(time.Duration(op.IatS) * time.Second).Unix()
	}
	enc := func(alg, secret string) string {
		_, tok, err := jwtauth.New(alg, []byte(secret), nil).Encode(claims)
		if err != nil {
			return "encode-error"
		}
		return tok
	}
	switch op.Cred {
	case "none":
		return "", false
	case "garbage":
		return "not.a.token", false
	case "empty_bearer":
		return " ", false
	case "wrong_secret":
		return enc("HS256", "another-secret-0123456789"), false
	case "alg_none":
		hb, _ := json.Marshal(map[string]interface{}{"alg": "none", "typ": "JWT"})
		cb, _ := json.Marshal(claims)
		return b64(hb) + "." + b64(cb) + ".", false
	case "hs384":
		return enc("HS384", jwtSecret), false
	case "hs512":
		return enc("HS512", jwtSecret), false
	case "rs256_header":
		// header says RS256; the signature is an HMAC under a key the server does not use (an RSA signature that
		// verifies cannot exist, the server has no RSA key)
		return rawToken(map[string]interface{}{"alg": "RS256", "typ": "JWT"}, claims, "public-key-used-as-hmac-secret"), false
	case "truncated":
		t := enc("HS256", jwtSecret)
		return t[:len(t)-3], false
	case "expired", "not_yet_valid", "valid", "valid_window":
		return enc("HS256", jwtSecret), true
	}
	return "", false
}

// tokenValidAt: RFC 7519 with whole-second claims: nbf <= now < exp.
func tokenValidAt(op Op, t0, now time.Time) bool {
	n := now.Unix()
	if op.ExpS != 0 && !(n < t0.Add(time.Duration(op.ExpS)*time.Second).Unix()) {
		return false
	}
	if op.NbfS != 0 && n < t0.Add(time.Duration(op.NbfS)*time.Second).Unix() {
		return false
	}
	return true
}

func (run *Run) execAuthHTTP(w *World, res OpResult) OpResult {
	op := res.Op
	routes := w.routes
	if len(routes) == 0 {
		return res
	}
	rt := routes[op.Route%len(routes)]
	path := rt.Path
	var body []byte
	q := ""
	switch {
	case strings.HasSuffix(path, "/schedule"):
		pl := "p"
		if len(w.defs.Pipelines) > 0 {
			pl = w.defs.Pipelines[0].Name
		}
		body, _ = json.Marshal(map[string]interface{}{"pipeline": pl, "variables": map[string]interface{}{"from": "http"}})
	case strings.HasSuffix(path, "/detail"), strings.HasSuffix(path, "/cancel"):
		q = "?id=" + mkID(uint64(op.Job)).String()
	case strings.HasSuffix(path, "/logs"):
		q = "?id=" + mkID(uint64(op.Job)).String() + "&task=a"
	case strings.HasSuffix(path, "/*"):
		path = strings.TrimSuffix(path, "*")
	}
	path = oddPath(path, op.PathStyle)
	req := httptest.NewRequest(rt.Method, path+q, bytes.NewReader(body))
	tok, _ := makeToken(op, run.t0)
	if op.Cred != "none" {
		switch op.Transport {
		case "cookie":
			req.AddCookie(&http.Cookie{Name: "jwt", Value: strings.TrimSpace(tok)})
		case "header_lower":
			req.Header.Set("Authorization", "bearer "+tok)
		default:
			req.Header.Set("Authorization", "Bearer "+tok)
		}
	}
	rec := httptest.NewRecorder()
	res.At = time.Now()
	w.srv.ServeHTTP(rec, req)
	res.Status = rec.Code
	res.Body = rec.Body.String()
	res.Route = rt.Method + " " + rt.Path
	return res
}

// checkAuthHTTP is the oracle of C14 for one finished request.
func (m *monState) checkAuthHTTP(si *StepInfo, res *OpResult, pre, post *Snap, evs []Event) {
	run := m.run
	op := res.Op
	_, timed := makeToken(op, run.t0)
	valid := timed && tokenValidAt(op, run.t0, res.At)
	prof := isProfilingRoute(strings.SplitN(res.Route, " ", 2)[1])
	desc := fmt.Sprintf("step %d: %s with credential %s via %s (exp %+ds nbf %+ds iat %+ds, request at +%.3fs)", si.N, res.Route, op.Cred, orStr(op.Transport, "header"), op.ExpS, op.NbfS, op.IatS, res.At.Sub(run.t0).Seconds())
	run.probe("http_" + map[bool]string{true: "valid", false: "invalid"}[valid])
	run.reach("auth_table_cells", fmt.Sprintf("%s | %s | %s | profiling=%v | token valid=%v -> %d", res.Route, op.Cred, orStr(op.Transport, "header"), run.sc.Cfg.Profiling, valid, res.Status))
	if op.PathStyle != 0 && !prof {
		// an unusual spelling of the path may or may not reach a route; without a valid token it must in no case
		// be served: anything but 401 / not found / a redirect is a violation, and it must do and reveal nothing
		run.probe("http_odd_path")
		if !valid {
			switch res.Status {
			case http.StatusUnauthorized, http.StatusNotFound, http.StatusMethodNotAllowed, http.StatusMovedPermanently, http.StatusPermanentRedirect, http.StatusBadRequest:
			default:
				run.violate("C14", "r1", "%s (sent as an unusual spelling of the path, style %d): the request carries no valid token but was answered %d", desc, op.PathStyle, res.Status)
			}
			if pre.digest() != post.digest() {
				run.violate("C14", "r2", "%s (unusual path spelling %d): the request without a valid token changed the state of the runner", desc, op.PathStyle)
			}
			for _, key := range []string{`"pipelines"`, `"jobs"`, `"stdout"`, `"jobId"`, `"tasks"`} {
				if strings.Contains(res.Body, key) {
					run.violate("C14", "r2", "%s (unusual path spelling %d): the response to a request without a valid token carries API data (%s)", desc, op.PathStyle, key)
				}
			}
		}
		return
	}
	if prof && op.PathStyle != 0 {
		return // odd spellings of profiling paths: no expectation
	}
	if prof {
		if !run.sc.Cfg.Profiling {
			if res.Status != http.StatusNotFound {
				run.violate("C14", "r4", "%s: profiling is disabled but the route answered %d", desc, res.Status)
			}
		} else if res.Status == http.StatusUnauthorized {
			run.violate("C14", "r4", "%s: profiling is enabled but the route answered 401", desc)
		}
		return
	}
	if valid && op.IatS != 0 && res.At.Unix() < run.t0.Add(time.Duration(op.IatS)*time.Second).Unix() {
		// nbf <= now < exp, but the token claims to have been issued in the future: whether that is "currently valid"
		// the statement does not say (the library refuses it); no expectation either way
		run.probe("http_iat_in_future_otherwise_valid")
		return
	}
	if valid {
		if res.Status == http.StatusUnauthorized {
			run.violate("C14", "r3", "%s: the token is valid at that instant but the request was answered 401", desc)
		}
		if timed && (op.ExpS != 0 || op.NbfS != 0) {
			run.probe("http_valid_with_time_window")
		}
		return
	}
	if res.Status != http.StatusUnauthorized {
		run.violate("C14", "r1", "%s: the request carries no valid token but was answered %d", desc, res.Status)
	}
	// r2: a rejected request does nothing and reveals nothing
	if res.Status == http.StatusUnauthorized {
		if pre.digest() != post.digest() {
			run.violate("C14", "r2", "%s: the rejected request changed the state of the runner", desc)
		}
		if len(evs) > 0 {
			run.violate("C14", "r2", "%s: the rejected request made the task runner do something (%s)", desc, evs[0].Kind)
		}
		for _, j := range pre.Jobs {
			if strings.Contains(res.Body, j.ID) {
				run.violate("C14", "r2", "%s: the 401 response reveals job id %s", desc, j.ID)
			}
		}
		for _, key := range []string{`"pipelines"`, `"jobs"`, `"stdout"`, `"jobId"`, `"tasks"`} {
			if strings.Contains(res.Body, key) {
				run.violate("C14", "r2", "%s: the 401 response carries API data (%s)", desc, key)
			}
		}
	}
	if timed {
		run.probe("http_rejected_by_time_window")
	}
}
