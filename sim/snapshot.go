package sim

import (
	"encoding/json"
	"fmt"
	"sort"
	"time"

	"github.com/Flowpack/prunner"
	"github.com/Flowpack/prunner/store"
)

// TaskSnap / JobSnap / Snap: what the exported API reports at one instant.
type TaskSnap struct {
	Name         string
	Status       string
	Start, End   *time.Time
	Skipped      bool
	ExitCode     int16
	Errored      bool
	Error        string
	HasError     bool
	Canceled     bool
	DependsOn    []string
	Script       []string
	AllowFailure bool
	Env          map[string]string
}

type JobSnap struct {
	Name       string
	Num        uint64
	ID         string
	Pipeline   string
	Completed  bool
	Canceled   bool
	Created    time.Time
	Start, End *time.Time
	User       string
	LastError  string
	HasError   bool
	Tasks      []TaskSnap
	Variables  map[string]interface{}
	StartDelay time.Duration
	Env        map[string]string
}

func (j *JobSnap) Running() bool  { return j.Start != nil && !j.Completed && !j.Canceled }
func (j *JobSnap) Waiting() bool  { return j.Start == nil && !j.Canceled }
func (j *JobSnap) Terminal() bool { return j.Completed || j.Canceled }

func (j *JobSnap) task(name string) *TaskSnap {
	for i := range j.Tasks {
		if j.Tasks[i].Name == name {
			return &j.Tasks[i]
		}
	}
	return nil
}

type PipeInfo struct {
	Pipeline    string
	Schedulable bool
	Running     bool
}

type Snap struct {
	World     int
	Jobs      map[string]*JobSnap
	Dup       []string // job names reported more than once by IterateJobs
	Pipelines []PipeInfo
	At        time.Duration
}

func cpTime(t *time.Time) *time.Time {
	if t == nil {
		return nil
	}
	c := *t
	return &c
}

func snapJob(j *prunner.PipelineJob) *JobSnap {
	s := &JobSnap{
		Name: jobName(j.ID), Num: jobNum(j.ID), ID: j.ID.String(), Pipeline: j.Pipeline,
		Completed: j.Completed, Canceled: j.Canceled, Created: j.Created,
		Start: cpTime(j.Start), End: cpTime(j.End), User: j.User,
		Variables: j.Variables, StartDelay: j.StartDelay, Env: j.Env,
	}
	if j.LastError != nil {
		s.HasError = true
		s.LastError = j.LastError.Error()
	}
	s.Tasks = make([]TaskSnap, len(j.Tasks))
	for i, t := range j.Tasks {
		ts := TaskSnap{
			Name: t.Name, Status: t.Status, Start: cpTime(t.Start), End: cpTime(t.End), Skipped: t.Skipped,
			ExitCode: t.ExitCode, Errored: t.Errored, Canceled: t.Canceled,
			DependsOn: t.DependsOn, Script: t.Script, AllowFailure: t.AllowFailure, Env: t.Env,
		}
		if t.Error != nil {
			ts.HasError = true
			ts.Error = t.Error.Error()
		}
		s.Tasks[i] = ts
	}
	return s
}

// snapshot reads the full API-visible state of a world. Called by the driver
// between steps, when every system goroutine is parked outside the runner lock,
// so the result is exact.
func (run *Run) snapshot(w *World) *Snap {
	s := &Snap{World: w.id, Jobs: map[string]*JobSnap{}, At: time.Since(run.t0)}
	w.r.IterateJobs(func(j *prunner.PipelineJob) {
		js := snapJob(j)
		if _, dup := s.Jobs[js.Name]; dup {
			s.Dup = append(s.Dup, js.Name)
		}
		s.Jobs[js.Name] = js
	})
	for _, p := range w.r.ListPipelines() {
		s.Pipelines = append(s.Pipelines, PipeInfo{p.Pipeline, p.Schedulable, p.Running})
	}
	return s
}

func (s *Snap) pipeInfo(name string) *PipeInfo {
	for i := range s.Pipelines {
		if s.Pipelines[i].Pipeline == name {
			return &s.Pipelines[i]
		}
	}
	return nil
}

// jobsOf returns the jobs of a pipeline in acceptance order.
func (s *Snap) jobsOf(pipeline string) []*JobSnap {
	var res []*JobSnap
	for _, j := range s.Jobs {
		if j.Pipeline == pipeline {
			res = append(res, j)
		}
	}
	sort.Slice(res, func(i, k int) bool { return res[i].Num < res[k].Num })
	return res
}

func (s *Snap) running(pipeline string) (n int) {
	for _, j := range s.Jobs {
		if j.Pipeline == pipeline && j.Running() {
			n++
		}
	}
	return
}

func (s *Snap) waiting(pipeline string) []*JobSnap {
	var res []*JobSnap
	for _, j := range s.jobsOf(pipeline) {
		if j.Waiting() {
			res = append(res, j)
		}
	}
	return res
}

func (s *Snap) sortedNames() []string {
	names := make([]string, 0, len(s.Jobs))
	for n := range s.Jobs {
		names = append(names, n)
	}
	sort.Slice(names, func(i, k int) bool { return s.Jobs[names[i]].Num < s.Jobs[names[k]].Num })
	return names
}

// digest is a canonical, order-independent rendering of the API-visible job
// state (used for "this step changed nothing" checks and for the trace hash).
func (j *JobSnap) digest() string {
	b, _ := json.Marshal(struct {
		N, P       string
		C, X       bool
		Cr         int64
		S, E       *int64
		U, LE      string
		T          []TaskSnap
		V          map[string]interface{}
		D          time.Duration
	}{j.Name, j.Pipeline, j.Completed, j.Canceled, j.Created.UnixNano(), unixp(j.Start), unixp(j.End), j.User, j.LastError, j.Tasks, j.Variables, j.StartDelay})
	return string(b)
}

func unixp(t *time.Time) *int64 {
	if t == nil {
		return nil
	}
	v := t.UnixNano()
	return &v
}

func (s *Snap) digest() string {
	out := ""
	for _, n := range s.sortedNames() {
		out += s.Jobs[n].digest() + "\n"
	}
	b, _ := json.Marshal(s.Pipelines)
	return out + string(b)
}

// abstract is a coarse state descriptor for the "distinct states reached" metric.
func (s *Snap) abstract() string {
	type pc struct{ run, wait, cw, done, canc int }
	m := map[string]*pc{}
	for _, j := range s.Jobs {
		c := m[j.Pipeline]
		if c == nil {
			c = &pc{}
			m[j.Pipeline] = c
		}
		switch {
		case j.Running():
			c.run++
		case j.Waiting():
			c.wait++
		case j.Canceled && j.Start == nil:
			c.cw++
		case j.Canceled:
			c.canc++
		default:
			c.done++
		}
	}
	keys := make([]string, 0, len(m))
	for k := range m {
		keys = append(keys, k)
	}
	sort.Strings(keys)
	out := ""
	for _, k := range keys {
		c := m[k]
		out += fmt.Sprintf("%s:%d/%d/%d/%d/%d;", k, c.run, c.wait, c.cw, c.done, c.canc)
	}
	return out
}

func roundTrip(d *store.PersistedData) (*store.PersistedData, error) {
	b, err := json.Marshal(d)
	if err != nil {
		return nil, err
	}
	var r store.PersistedData
	if err := json.Unmarshal(b, &r); err != nil {
		return nil, err
	}
	return &r, nil
}

func sortStrings(s []string) { sort.Strings(s) }
