// Package sim is engine A of the verification harness: a seeded cooperative
// scheduler that runs the real prunner PipelineRunner (and everything it
// spawns) inside one testing/synctest bubble, one goroutine at a time.
//
// See /verif/DESIGN.md §2.
package sim

import (
	"runtime"
	"sort"
	"sync"
	"testing/synctest"
	"time"
)

// release codes handed to a parked goroutine
const (
	relGo  = 0 // continue
	relDie = 1 // runtime.Goexit(): the world this goroutine belongs to has crashed / is torn down
	// values >= relOutcomeBase carry a stub task outcome
	relOutcomeBase = 16
)

// lock attributes of a hook point (DESIGN §2.4)
type lockAttr uint8

const (
	lkNone  lockAttr = iota
	lkR              // will acquire mx.RLock right after the point
	lkW              // will acquire mx.Lock right after the point
	lkHoldR          // is parked while holding mx.RLock (harness callbacks, C13 configuration only)
	lkHoldW          // ... while holding mx.Lock
)

// parked is the record of one goroutine waiting at a hook point. It is written
// only by the parking goroutine before the hand-off and read by the driver only
// through the go:norace accessors below, so that in the race configuration
// (DESIGN §2.8) the simulator adds no happens-before edges of its own.
type parked struct {
	point string
	name  string      // canonical name, computed locally on the parking goroutine
	owner interface{} // *prunner.PipelineRunner, *stub, *store.JsonDataStore or nil: attributes the record to a world
	goid  uint64
	attr  lockAttr
	lock  uintptr // identity of the lock the goroutine takes next (0: the runner lock of its world, if attr says so)
	ch    chan int
}

//go:norace
func (p *parked) rd() (point, name string, owner interface{}, goid uint64, attr lockAttr, ch chan int) {
	return p.point, p.name, p.owner, p.goid, p.attr, p.ch
}

//go:norace
func (p *parked) lockID() uintptr { return p.lock }

// Core is the park/release machinery. All fields except arrivals are private to
// the driver goroutine.
type Core struct {
	arrivals chan *parked
	parkedQ  []*parked
	tags     map[*parked]string // driver-private: final name = name + tag ("@c1")
	driver   uint64 // goroutine id of the driver; handler calls from it never park

	evMu   sync.Mutex
	events []Event // stub events, appended through emit()
}

func newCore() *Core {
	return &Core{arrivals: make(chan *parked, 1<<14), driver: goid(), tags: map[*parked]string{}}
}

// park is called on system goroutines. It blocks durably (channel receive)
// until the driver releases the record, and returns the release code.
func (c *Core) park(point, name string, owner interface{}, attr lockAttr) int {
	return c.parkL(point, name, owner, attr, 0)
}

func (c *Core) parkL(point, name string, owner interface{}, attr lockAttr, lock uintptr) int {
	p := &parked{point: point, name: name, owner: owner, goid: goid(), attr: attr, lock: lock, ch: make(chan int, 1)}
	raceOff()
	c.arrivals <- p
	code := <-p.ch
	raceOn()
	if code == relDie {
		runtime.Goexit()
	}
	return code
}

// drain moves all arrived records into the parked queue.
func (c *Core) drain() (n int) {
	raceOff()
	for {
		select {
		case p := <-c.arrivals:
			c.parkedQ = append(c.parkedQ, p)
			n++
			continue
		default:
		}
		break
	}
	raceOn()
	return n
}

// release lets one parked goroutine continue and waits until it (and whatever
// it woke) is durably blocked again.
func (c *Core) release(p *parked, code int) {
	for i, q := range c.parkedQ {
		if q == p {
			c.parkedQ = append(c.parkedQ[:i], c.parkedQ[i+1:]...)
			break
		}
	}
	delete(c.tags, p)
	_, _, _, _, _, ch := p.rd()
	raceOff()
	ch <- code
	raceOn()
	synctest.Wait()
}

// advanceUntilArrival lets fake time pass until some goroutine parks, at most d.
// Returns the time that passed.
func (c *Core) advanceUntilArrival(d time.Duration) time.Duration {
	t0 := time.Now()
	tm := time.NewTimer(d)
	raceOff()
	select {
	case p := <-c.arrivals:
		c.parkedQ = append(c.parkedQ, p)
	case <-tm.C:
	}
	raceOn()
	tm.Stop()
	synctest.Wait()
	return time.Since(t0)
}

// advanceExactly lets exactly d of fake time pass; goroutines that wake park at
// their next hook and stay there (a stalled node).
func (c *Core) advanceExactly(d time.Duration) {
	time.Sleep(d)
	synctest.Wait()
}

// sortParked orders the queue by final name (stable; twins keep arrival order,
// which is irrelevant because twins are interchangeable).
func (c *Core) sortParked() {
	sort.SliceStable(c.parkedQ, func(i, j int) bool {
		return c.final(c.parkedQ[i]) < c.final(c.parkedQ[j])
	})
}

func (c *Core) final(p *parked) string {
	_, name, _, _, _, _ := p.rd()
	return name + c.tags[p]
}

// Event is a ground-truth record produced by the stub task runner (and by
// harness-owned stores): what really executed, when.
type Event struct {
	Kind  string // created, run-refused, run-enter, run-exit, cancel-delivered, cancel-returned, finish, log-write
	World int
	Job   string
	Task  string
	Arg   string // outcome for run-exit
	Step  int    // filled by the driver when it collects the event
	At    time.Duration
	Stub  int // ordinal of the stub for this job (1 = first createTaskRunner call)
}

// emit appends an event. It may be called from system goroutines; execution is
// physically serialised by the driver, the mutex only guards against the brief
// overlap of goroutines woken by the same runtime primitive.
//
//go:norace
func (c *Core) emit(e Event) {
	raceOff()
	c.evMu.Lock()
	c.events = append(c.events, e)
	c.evMu.Unlock()
	raceOn()
}

//go:norace
func (c *Core) takeEvents() []Event {
	raceOff()
	c.evMu.Lock()
	ev := c.events
	c.events = nil
	c.evMu.Unlock()
	raceOn()
	return ev
}
