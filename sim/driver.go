package sim

import (
	"bytes"
	"context"
	"crypto/sha256"
	"encoding/hex"
	"encoding/json"
	"errors"
	"fmt"
	"net/http"
	"net/url"
	"net/http/httptest"
	"os"
	"path/filepath"
	"reflect"
	"runtime"
	"sort"
	"sync"
	"strings"
	"sync/atomic"
	"testing/synctest"
	"time"

	"github.com/gofrs/uuid"
	"github.com/taskctl/taskctl/pkg/scheduler"

	"github.com/Flowpack/prunner"
	"github.com/Flowpack/prunner/store"
	"github.com/Flowpack/prunner/verifhook"
)

// Heartbeat is incremented on every step; the worker's real-time watchdog
// (outside the bubble) reads it.
var Heartbeat atomic.Int64

type Violation struct {
	Prop string `json:"property"`
	Rule string `json:"rule"`
	Msg  string `json:"message"`
	Step int    `json:"step"`
}

func (v Violation) Key() string { return v.Prop + "/" + v.Rule }

// OpResult is what a client operation returned.
type OpResult struct {
	Client int
	Op     Op
	World  int
	Job    string // accepted job (schedule)
	Err    string // error class: "" noqueue queuefull notfound completed shuttingdown undefined uuid other:…
	Read   *JobSnap
	List   []PipeInfo
	Status int // HTTP status if the op went through the HTTP handler
	Body   string
	Route  string    // C14: method and route pattern that was requested
	At     time.Time // C14: fake time at which the request entered the handler
	Lost   bool // the world crashed while the op was in flight
}

type StepInfo struct {
	N       int
	Kind    string // release start advance crash probe
	Name    string
	Point   string
	Client  int
	Outcome string
	Dt      time.Duration
	Results []OpResult
	Forced  bool // chosen by settle/drain policy, not by the tape
	Gid     uint64 // goroutine that was released (release steps)
	InSave  bool   // that goroutine is inside a SaveToStore call: it has passed the hook at the function's entry and no other entry hook since
}

// saveCall: one call of SaveToStore, from the hook at its entry on.
type saveCall struct {
	begin   int   // step in which the goroutine entered
	atBegin *Snap // what the API reported just before
	handed  int   // index of the snapshot this call handed to the store, -1 before
}

// endSaveCall: the goroutine has left SaveToStore for certain (it is back at the top of the persist loop, its client
// operation has returned, or it has entered another exported function).
//
//go:norace
func (run *Run) endSaveCall(gid uint64) {
	raceOff()
	run.heldMu.Lock()
	delete(run.saving, gid)
	run.heldMu.Unlock()
	raceOn()
}

// otherSaveActive: is a goroutine other than gid inside a SaveToStore call that is not over yet? (It is parked at a
// hook point, or the store has not finished the snapshot it was handed.)
func (run *Run) otherSaveActive(gid uint64) bool {
	w := run.cur
	for g, c := range run.saving {
		if g == gid {
			continue
		}
		for _, p := range run.core.parkedQ {
			if _, _, _, pg, _, _ := p.rd(); pg == g {
				return true
			}
		}
		if w != nil && w.mem != nil && c.handed >= 0 && c.handed < len(w.mem.handed) && !w.mem.handed[c.handed].Done {
			return true
		}
	}
	return false
}

type clientState struct {
	next int
	busy bool
	goid uint64
	op   Op
}

type helloMsg struct {
	client int
	goid   uint64
}

type Stats struct {
	Steps        int
	SimTime      time.Duration
	Faults       map[string]int
	Probes       map[string]int
	AbstractSeen map[string]bool
	Accepted     int
	Started      int
	Drained      bool
	DrainSteps   int
	Leak         bool
	Inconclusive []string
	Sets         map[string]map[string]bool // named sets of things reached (merged by union across runs)
}

// Run is one simulated execution.
type Run struct {
	sc   *Scenario
	tape *Tape
	core *Core
	t0   time.Time
	gen  *detGen

	worlds      []*World
	cur         *World
	runnerOwner map[*prunner.PipelineRunner]*World
	storeOwner  map[*store.JsonDataStore]*World
	baseDir     string
	dirN        int

	clients  []*clientState
	lastLock map[uint64]lockAttr // goroutine id -> kind of the last lock-acquiring point released for it
	heldMu   sync.Mutex
	held     map[uintptr]map[uint64]*heldRec // lock -> goroutine id -> how it holds it (from "auto.locked*" until "auto.unlocked")
	mxCache  map[*prunner.PipelineRunner]uintptr
	gWorld   map[uint64]*World // goroutine id -> world it was last seen working for
	deadlock string              // set once: description of a goroutine that blocks for ever while holding the runner lock
	goidTag  map[uint64]int
	hello    chan helloMsg
	done     chan OpResult
	pendRes  []OpResult
	step     int
	pre      *Snap
	trace    []string
	choices  []string // names chosen, for the replay file
	viol     []Violation
	stats    Stats
	mon      *monState
	mode     int // 0 main, 1 settle, 2 drain
	settleN  int
	settleEp bool
	probeRR  int
	stopMain bool
	onlyProp string
	logsBefore   map[string]string // log directory listing taken right before a step of a goroutine that is inside SaveToStore (C12 r7)
	saving       map[uint64]*saveCall // goroutine id -> the SaveToStore call it is in
	trackChanges bool
	settleLong   int
	CrashLog string // if set, progress is flushed to this file after every step (runs that may kill the process)
}

// CrashRecord is what survives a run that ended in a panic of system code.
type CrashRecord struct {
	Step       int         `json:"step"`
	Tape       []uint32    `json:"tape"`
	Choices    []string    `json:"choices"`
	Violations []Violation `json:"violations"`
	Trace      []string    `json:"trace_tail"`
}

func (run *Run) flushCrashLog() {
	tail := run.trace
	if len(tail) > 60 {
		tail = tail[len(tail)-60:]
	}
	b, _ := json.Marshal(CrashRecord{Step: run.step, Tape: run.tape.Used(), Choices: run.choices, Violations: run.viol, Trace: tail})
	_ = os.WriteFile(run.CrashLog, b, 0o644)
}

const (
	modeMain = iota
	modeSettle
	modeDrain
)

func NewRun(sc *Scenario, tape *Tape) *Run {
	return &Run{sc: sc, tape: tape,
		runnerOwner: map[*prunner.PipelineRunner]*World{}, storeOwner: map[*store.JsonDataStore]*World{},
		goidTag: map[uint64]int{}, lastLock: map[uint64]lockAttr{}, saving: map[uint64]*saveCall{}, held: map[uintptr]map[uint64]*heldRec{}, mxCache: map[*prunner.PipelineRunner]uintptr{}, gWorld: map[uint64]*World{}, hello: make(chan helloMsg, 64), done: make(chan OpResult, 64),
		stats: Stats{Faults: map[string]int{}, Probes: map[string]int{}, AbstractSeen: map[string]bool{}},
	}
}

func (run *Run) newDir() (string, error) {
	if run.baseDir == "" {
		base := "/dev/shm"
		if _, err := os.Stat(base); err != nil {
			base = os.TempDir()
		}
		d, err := os.MkdirTemp(base, "verif-sim-")
		if err != nil {
			return "", err
		}
		run.baseDir = d
	}
	run.dirN++
	d := filepath.Join(run.baseDir, fmt.Sprintf("w%d", run.dirN))
	return d, os.MkdirAll(d, 0o777)
}

func (run *Run) violate(prop, rule, format string, a ...interface{}) {
	for _, v := range run.viol {
		if v.Prop == prop && v.Rule == rule {
			return // first occurrence per rule is enough
		}
	}
	run.viol = append(run.viol, Violation{prop, rule, fmt.Sprintf(format, a...), run.step})
}

//go:norace
func (run *Run) curStep() int { return run.step }

func (run *Run) probe(name string) { run.stats.Probes[name]++ }

func (run *Run) reach(set, item string) {
	if run.stats.Sets == nil {
		run.stats.Sets = map[string]map[string]bool{}
	}
	if run.stats.Sets[set] == nil {
		run.stats.Sets[set] = map[string]bool{}
	}
	run.stats.Sets[set][item] = true
}
func (run *Run) fault(name string) { run.stats.Faults[name]++ }

// ---------------------------------------------------------------------------
// hook handlers (run on system goroutines)

func (run *Run) hook(point string, ctx []interface{}) {
	if goid() == run.core.driver {
		return
	}
	if point == "HandleStageChange" {
		if st, ok := ctx[1].(*scheduler.Stage); ok && st.ReadStatus() == scheduler.StatusRunning {
			// launch pass of the scheduler loop: atomic from the simulator's point of view (DESIGN §2.3)
			return
		}
	}
	name, owner, attr, lock := nameOf(point, ctx)
	if point == "sched.loop" {
		if s, ok := ctx[0].(jobRunner); ok && s.markBegun() {
			s.ev("exec-begin", "", "")
		}
	}
	run.core.parkL(point, name, owner, attr, lock)
	if point == "sched.loop" {
		if s, ok := ctx[0].(jobRunner); ok {
			g := ctx[1].(*scheduler.ExecutionGraph)
			snap := make(map[string]int32, len(g.Nodes()))
			for n, st := range g.Nodes() {
				snap[n] = st.ReadStatus()
			}
			*s.pass() = snap
		}
	}
}

func (run *Run) skipHook(point string, ctx []interface{}) bool {
	switch point {
	case "auto.lockedW", "auto.lockedR":
		attr := lkW
		if point == "auto.lockedR" {
			attr = lkR
		}
		if len(ctx) > 1 {
			run.noteLocked(attr, ptrOf(ctx[1]))
		}
		return false
	case "auto.unlocked":
		if len(ctx) > 1 {
			run.noteUnlocked(ptrOf(ctx[1]))
		}
		return false
	case "persist.stop":
		run.endSaveCall(goid()) // top of the persist loop: the previous SaveToStore call of this goroutine is over
		c, _ := ctx[1].(context.Context)
		return c != nil && c.Err() != nil
	case "sched.visit":
		s, ok := ctx[0].(jobRunner)
		if !ok || *s.pass() == nil {
			return false
		}
		g := ctx[1].(*scheduler.ExecutionGraph)
		st := ctx[2].(*scheduler.Stage)
		return passFate(g, st, *s.pass()) == fateStay
	}
	return false
}

const (
	fateStay = iota
	fateLaunch
	fateCancel
)

// passFate evaluates what the scheduler pass does with a waiting stage when all
// stages are judged against the statuses at the start of the pass (one of the
// behaviours the Go map iteration order allows; DESIGN §2.3).
func passFate(g *scheduler.ExecutionGraph, st *scheduler.Stage, snap map[string]int32) int {
	fate := fateLaunch
	for _, dep := range g.To(st.Name) {
		ds, err := g.Node(dep)
		if err != nil {
			return fateLaunch // let the real code deal with it
		}
		switch snap[dep] {
		case scheduler.StatusDone, scheduler.StatusSkipped:
		case scheduler.StatusError:
			if !ds.AllowFailure {
				return fateCancel
			}
		case scheduler.StatusCanceled:
			return fateCancel
		default:
			fate = fateStay
		}
	}
	return fate
}

func (run *Run) faultHook(point string, ctx []interface{}) error {
	if point == "store.save.encode" {
		if js, ok := ctx[0].(*store.JsonDataStore); ok {
			if w := run.storeOwner[js]; w != nil && w.takeFailNextSave() {
				// the disk filled up in the middle of the write: the temp file is incomplete
				if tmp, ok := ctx[1].(string); ok {
					if fi, err := os.Stat(tmp); err == nil {
						_ = os.Truncate(tmp, fi.Size()/2)
					}
				}
				return errors.New("simulated ENOSPC")
			}
		}
	}
	return nil
}

// ---------------------------------------------------------------------------
// bookkeeping between steps

func (run *Run) worldOf(owner interface{}) *World {
	switch o := owner.(type) {
	case *prunner.PipelineRunner:
		return run.runnerOwner[o]
	case jobRunner:
		return o.theWorld()
	case *World:
		return o
	case *store.JsonDataStore:
		return run.storeOwner[o]
	}
	return nil
}

// collect drains all channels, tags records of client goroutines and lets
// goroutines of dead worlds die.
func (run *Run) collect() {
	for {
		raceOff()
	hello:
		for {
			select {
			case h := <-run.hello:
				run.goidTag[h.goid] = h.client
				run.clients[h.client].goid = h.goid
			default:
				break hello
			}
		}
	done:
		for {
			select {
			case r := <-run.done:
				if r.Client >= 0 {
					cs := run.clients[r.Client]
					cs.busy = false
					delete(run.goidTag, cs.goid)
					delete(run.saving, cs.goid)
				}
				run.pendRes = append(run.pendRes, r)
			default:
				break done
			}
		}
		raceOn()
		run.core.drain()
		killed := false
		for _, p := range append([]*parked(nil), run.core.parkedQ...) {
			point, _, owner, gid, _, _ := p.rd()
			w := run.worldOf(owner)
			if w != nil {
				run.gWorld[gid] = w
			} else {
				w = run.gWorld[gid] // a hook point that does not say whose it is (an inserted one on a lock of something else)
			}
			if run.core.tags[p] == "" {
				if c, ok := run.goidTag[gid]; ok {
					run.core.tags[p] = fmt.Sprintf("@c%d", c)
				}
			}
			if w != nil && w.isDead() {
				code := relDie
				if point == "cancel.go" || point == "runner.cancel" {
					code = relGo // these must run through so that WaitGroups of the dead world drain
				}
				run.core.release(p, code)
				killed = true
			}
		}
		if !killed {
			break
		}
	}
	run.core.sortParked()
}

// holdKind: which lock a record parked inside a harness callback holds. The
// callback itself cannot know whether its caller took the read or the write
// lock; the driver remembers the last lock-acquiring point it released for that
// goroutine.
func (run *Run) holdKind(p *parked) lockAttr {
	_, _, _, gid, attr, _ := p.rd()
	if attr != lkHoldR && attr != lkHoldW {
		return lkNone
	}
	if run.lastLock[gid] == lkW {
		return lkHoldW
	}
	return lkHoldR
}

// readersInside counts records parked while holding the runner lock (read or write).
func (run *Run) readersInside() int {
	n := 0
	for _, p := range run.core.parkedQ {
		if run.holdKind(p) != lkNone {
			n++
		}
	}
	return n
}

func (run *Run) writerInside() bool {
	for _, p := range run.core.parkedQ {
		if run.holdKind(p) == lkHoldW {
			return true
		}
	}
	return false
}

// heldRec: one lock as held by one goroutine. Entries are made and removed by the
// notifications the instrumenter puts after every `L.Lock()`, `L.RLock()` and
// unlock of the root package, executed by the goroutine itself.
type heldRec struct {
	kind  lockAttr // lkR or lkW
	depth int
	step  int
}

//go:norace
func (run *Run) noteLocked(attr lockAttr, lock uintptr) {
	gid := goid()
	if gid == run.core.driver || lock == 0 {
		return
	}
	raceOff()
	run.heldMu.Lock()
	hs := run.held[lock]
	if hs == nil {
		hs = map[uint64]*heldRec{}
		run.held[lock] = hs
	}
	if h := hs[gid]; h != nil {
		h.depth++
	} else {
		hs[gid] = &heldRec{kind: attr, depth: 1, step: run.step}
	}
	run.heldMu.Unlock()
	raceOn()
}

//go:norace
func (run *Run) noteUnlocked(lock uintptr) {
	gid := goid()
	if gid == run.core.driver {
		return
	}
	raceOff()
	run.heldMu.Lock()
	if h := run.held[lock][gid]; h != nil {
		h.depth--
		if h.depth <= 0 {
			delete(run.held[lock], gid)
		}
	}
	run.heldMu.Unlock()
	raceOn()
}

// mxOf: identity of the runner's own lock (the one the driver's reads take).
func (run *Run) mxOf(r *prunner.PipelineRunner) uintptr {
	if r == nil {
		return 0
	}
	if id, ok := run.mxCache[r]; ok {
		return id
	}
	var id uintptr
	if f := reflect.ValueOf(r).Elem().FieldByName("mx"); f.IsValid() && f.CanAddr() {
		id = f.Addr().Pointer()
	}
	run.mxCache[r] = id
	return id
}

// lockOf: the lock the goroutine of record p is about to take (0 = none known).
func (run *Run) lockOf(p *parked) uintptr {
	_, _, owner, _, attr, _ := p.rd()
	if attr != lkR && attr != lkW {
		return 0
	}
	if id := p.lockID(); id != 0 {
		return id
	}
	if w := run.worldOf(owner); w != nil {
		return run.mxOf(w.r)
	}
	return 0
}

// holder describes who stands in the way of a goroutine gid that wants lock in
// mode attr (gid 0, attr lkR, the runner lock: the driver's own snapshot).
// rec != nil: the holder waits at a hook point and can be released; otherwise it
// sits in a channel operation, a timer or a wait group - or has returned without
// unlocking - and releasing the requester would block it on a sync mutex, which
// the bubble does not count as durably blocked: the simulator would hang.
//
//go:norace
func (run *Run) holder(gid uint64, attr lockAttr, lock uintptr) (rec *parked, found bool, desc string) {
	if lock == 0 {
		return nil, false, ""
	}
	raceOff()
	run.heldMu.Lock()
	defer func() { run.heldMu.Unlock(); raceOn() }()
	hs := run.held[lock]
	if len(hs) == 0 {
		return nil, false, ""
	}
	var gids []uint64
	for g := range hs {
		gids = append(gids, g)
	}
	sort.Slice(gids, func(i, j int) bool { return gids[i] < gids[j] })
	for _, g := range gids {
		h := hs[g]
		if h.kind != lkW && attr != lkW {
			continue
		}
		if g == gid {
			return nil, true, fmt.Sprintf("itself: it took the lock in step %d and takes it again", h.step)
		}
		for _, q := range run.core.parkedQ {
			if _, _, _, qg, _, _ := q.rd(); qg == g {
				return q, true, ""
			}
		}
		mode := "read"
		if h.kind == lkW {
			mode = "write"
		}
		return nil, true, fmt.Sprintf("a goroutine that took the %s lock in step %d and has not released it (%s)", mode, h.step, whereIs(g))
	}
	return nil, false, ""
}

// lockBusy: would a read of the runner by the driver block? If the holder is not
// parked at a hook point, fake time is given a minute to make it let go; after
// that the runner is deadlocked (see declareDeadlock).
func (run *Run) lockBusy() bool {
	if run.cur == nil || run.cur.isDead() || run.sc.Cfg.NoOracle {
		return false
	}
	if run.deadlock != "" {
		return true
	}
	rec, found, desc := run.holder(0, lkR, run.mxOf(run.cur.r))
	for i := 0; found && rec == nil && i < 6; i++ {
		run.core.advanceExactly(10 * time.Second)
		run.collect()
		rec, found, desc = run.holder(0, lkR, run.mxOf(run.cur.r))
	}
	if found && rec == nil {
		run.declareDeadlock("every reader and writer of the runner is blocked by " + desc + " (60 s of simulated time later it still holds it)")
	}
	return found
}

// lockHolderParked returns the record of a goroutine parked at a hook point
// while holding the write lock of the current runner: it is run first, nothing
// else can be observed until it lets go.
func (run *Run) lockHolderParked() *parked {
	if run.cur == nil || run.cur.isDead() || run.sc.Cfg.NoOracle || run.deadlock != "" {
		return nil
	}
	rec, _, _ := run.holder(0, lkR, run.mxOf(run.cur.r))
	return rec
}

// stuckOnLock: is a parked goroutine of the current world waiting for the runner
// lock behind a holder that is not parked anywhere?
func (run *Run) stuckOnLock() string {
	for _, p := range run.core.parkedQ {
		_, name, owner, gid, attr, _ := p.rd()
		if attr != lkR && attr != lkW {
			continue
		}
		if w := run.worldOf(owner); w == nil || w.isDead() {
			continue
		}
		if rec, found, desc := run.holder(gid, attr, run.lockOf(p)); found && rec == nil {
			return name + " is blocked by " + desc
		}
	}
	return ""
}

// lockCycle: every parked goroutine waits for a lock whose holder is parked too
// and waits for a lock itself (lock-order inversion).
func (run *Run) lockCycle() string {
	var parts []string
	for _, p := range run.core.parkedQ {
		_, name, owner, gid, attr, _ := p.rd()
		if w := run.worldOf(owner); w != nil && w.isDead() {
			continue
		}
		if run.grantable(p) {
			return ""
		}
		if rec, found, _ := run.holder(gid, attr, run.lockOf(p)); found && rec != nil {
			parts = append(parts, name+" waits for a lock held by "+run.core.final(rec))
		}
	}
	if len(parts) == 0 {
		return ""
	}
	return "lock-order inversion: " + strings.Join(parts, "; ")
}

// deadlockProps: the properties whose statements a runner that never answers
// again contradicts (the same set for which a panic of the runner is a violation,
// plus those with an explicit "eventually").
var deadlockProps = map[string]bool{"C01": true, "C02": true, "C03": true, "C04": true, "C06": true, "C07": true, "C08": true, "C11": true, "C16": true}

func (run *Run) declareDeadlock(desc string) {
	if run.deadlock != "" {
		return
	}
	run.deadlock = desc
	run.stopMain = true
	run.probe("runner_lock_deadlock")
	prop := run.sc.Profile
	if !deadlockProps[prop] {
		prop = "C03"
	}
	run.violate(prop, "deadlock", "the runner lock is never released: %s; no request is answered and no job makes progress any more", desc)
}

// whereIs describes what goroutine gid is doing, from a stack dump: its wait
// state and its innermost frame in Flowpack/prunner. (No goroutine ids or
// addresses: the text is part of replayable output.)
func whereIs(gid uint64) string {
	buf := make([]byte, 1<<20)
	buf = buf[:runtime.Stack(buf, true)]
	head := fmt.Sprintf("goroutine %d [", gid)
	for _, blk := range strings.Split(string(buf), "\n\n") {
		if !strings.HasPrefix(blk, head) {
			continue
		}
		lines := strings.Split(blk, "\n")
		state := strings.TrimSuffix(strings.TrimPrefix(lines[0], head), "]:")
		if i := strings.IndexAny(state, ",]"); i >= 0 {
			state = state[:i]
		}
		for _, l := range lines[1:] {
			if strings.HasPrefix(l, "github.com/Flowpack/prunner") {
				if i := strings.LastIndex(l, "("); i > 0 {
					l = l[:i]
				}
				return "it is in state '" + state + "' in " + l
			}
		}
		return "it is in state '" + state + "'"
	}
	return "it has returned without unlocking"
}

// lockFree: can the goroutine of record p take the runner lock without blocking?
func (run *Run) lockFree(p *parked) bool {
	_, _, _, gid, attr, _ := p.rd()
	_, found, _ := run.holder(gid, attr, run.lockOf(p))
	return !found
}

// grantable: the lock model of DESIGN §2.4. A record that is about to take the
// write lock is not released while anybody is parked inside; one that is about
// to take the read lock not while a write-lock holder is parked inside.
func (run *Run) grantable(p *parked) bool {
	_, _, owner, _, attr, _ := p.rd()
	if attr != lkW && attr != lkR {
		return true
	}
	if !run.lockFree(p) {
		return false
	}
	if id := p.lockID(); id != 0 {
		if w := run.worldOf(owner); w == nil || id != run.mxOf(w.r) {
			return true // some other lock: the records parked inside harness callbacks do not hold it
		}
	}
	if attr == lkW {
		return run.readersInside() == 0
	}
	return !run.writerInside()
}

// ---------------------------------------------------------------------------
// choices

type choice struct {
	kind   string // release start advance settle crash
	rec    *parked
	client int
	name   string
	weight int
}

func (run *Run) buildChoices() []choice {
	cfg := run.sc.Cfg
	var cs []choice
	last := ""
	scale := 1
	if cfg.SlowPoint != "" {
		scale = 8
	}
	for _, p := range run.core.parkedQ {
		n := run.core.final(p)
		if n == last || !run.grantable(p) {
			continue
		}
		last = n
		cs = append(cs, choice{kind: "release", rec: p, name: n, weight: cfg.WParked * scale / run.slowness(p)})
	}
	if run.cur != nil && !run.cur.isDead() {
		for c, st := range run.clients {
			if !st.busy && st.next < len(run.sc.Clients[c]) {
				cs = append(cs, choice{kind: "start", client: c, name: fmt.Sprintf("start:c%d", c), weight: cfg.WClient * scale})
			}
		}
	}
	if cfg.WSettle > 0 {
		cs = append(cs, choice{kind: "settle", name: "settle", weight: cfg.WSettle * scale})
	}
	if cfg.WCrash > 0 && len(run.worlds) < 4 {
		cs = append(cs, choice{kind: "crash", name: "crash", weight: cfg.WCrash * scale})
	}
	cs = append(cs, choice{kind: "advance", name: "advance", weight: cfg.WAdvance * scale})
	return cs
}

// slowness: 8 for a record parked at the run's stalled hook point, else 1.
func (run *Run) slowness(p *parked) int {
	sp := run.sc.Cfg.SlowPoint
	if sp == "" {
		return 1
	}
	point, _, _, _, _, _ := p.rd()
	if point == sp || strings.HasPrefix(point, sp+".") || strings.HasPrefix(point, "auto.") && strings.Contains(point, ":"+sp+"#") {
		return 8
	}
	return 1
}

func (run *Run) pickWeighted(cs []choice) choice {
	total := 0
	for _, c := range cs {
		total += c.weight
	}
	x := run.tape.Pick(total)
	for _, c := range cs {
		if x < c.weight {
			return c
		}
		x -= c.weight
	}
	return cs[len(cs)-1]
}

var advanceAmounts = []time.Duration{0, time.Millisecond, 50 * time.Millisecond, time.Second, 5 * time.Second, time.Minute}

// ---------------------------------------------------------------------------
// Execute runs the scenario; must be called inside a synctest bubble.

func (run *Run) Execute() (err error) {
	run.core = newCore()
	run.t0 = time.Now()
	run.gen = &detGen{}
	uuid.DefaultGenerator = run.gen
	verifhook.Handler = run.hook
	verifhook.SkipHandler = run.skipHook
	verifhook.FaultHandler = run.faultHook
	defer func() {
		verifhook.Handler = nil
		verifhook.SkipHandler = nil
		verifhook.FaultHandler = nil
		uuid.DefaultGenerator = uuid.NewGen()
		if run.baseDir != "" {
			_ = os.RemoveAll(run.baseDir)
		}
	}()
	for k, v := range run.sc.ProcEnv {
		os.Setenv(k, v)
		defer os.Unsetenv(k)
	}
	run.mon = newMonState(run)
	run.trackChanges = run.sc.Cfg.PersistCheck
	for range run.sc.Clients {
		run.clients = append(run.clients, &clientState{})
	}
	w, err := run.newWorld(nil, run.sc.Defs[0], 0)
	if err != nil {
		return err
	}
	run.cur = w
	run.mon.onWorldStart(w, nil)
	synctest.Wait()
	run.collect()
	if !run.sc.Cfg.NoOracle {
		run.pre = run.snapshot(w)
	}

	// main phase
	for run.step < run.sc.Cfg.MaxSteps && !run.stopMain {
		Heartbeat.Add(1)
		ch, ok := run.nextChoice()
		if !ok {
			break
		}
		run.apply(ch)
	}
	// drain phase: no more client ops, no more faults, fair scheduling, tasks succeed
	run.mode = modeDrain
	run.drain()
	if !run.sc.Cfg.NoOracle && run.deadlock == "" {
		run.mon.onEnd()
		if run.cur != nil && !run.cur.isDead() && run.stats.Drained {
			switch run.sc.Profile {
			case "C18":
				run.mon.checkEnvLogs()
			case "C19":
				run.mon.checkOutputLogs()
			}
		}
	}
	run.stats.Steps = run.step
	run.stats.SimTime = time.Since(run.t0)
	run.teardown()
	return nil
}

func (run *Run) allClientsDone() bool {
	for c, st := range run.clients {
		if st.busy || st.next < len(run.sc.Clients[c]) {
			return false
		}
	}
	return true
}

// nextChoice returns the next step to take: forced while settling, otherwise
// drawn from the tape.
func (run *Run) nextChoice() (choice, bool) {
	run.collect()
	if p := run.lockHolderParked(); p != nil {
		return choice{kind: "release", rec: p, name: run.core.final(p)}, true
	}
	if run.mode == modeSettle {
		if ch, ok := run.settleChoice(); ok {
			return ch, true
		}
		// settled
		run.mode = modeMain
		run.mon.onSettled()
		if run.sc.Profile == "C15" || run.sc.Profile == "C05" {
			np := len(run.cur.defs.Pipelines)
			if k := run.tape.Pick(np + 1); k > 0 && !run.cur.isDead() {
				return choice{kind: "probe", name: "probe:" + run.cur.defs.Pipelines[k-1].Name, client: k - 1}, true
			}
		}
		run.collect()
	}
	cs := run.buildChoices()
	active := false
	for _, c := range cs {
		if c.kind == "release" || c.kind == "start" {
			active = true
		}
	}
	if !active && run.allClientsDone() {
		// nothing is runnable and no client has anything left to do: is anything ever going to happen again?
		dt := run.core.advanceUntilArrival(2 * time.Hour)
		run.collect()
		if len(run.core.parkedQ) == 0 {
			return choice{}, false
		}
		run.recordStep(StepInfo{Kind: "advance", Name: "advance", Dt: dt, Forced: true})
		return run.nextChoice()
	}
	return run.pickWeighted(cs), true
}

// settleChoice: release system goroutines (not client goroutines, not running
// tasks) until none is left, let one poll interval pass, and repeat once.
func (run *Run) settleChoice() (choice, bool) {
	for {
		for _, p := range run.core.parkedQ {
			point, _, _, _, _, _ := p.rd()
			if run.core.tags[p] != "" || point == "task.exec" || point == "task.open" || !run.grantable(p) {
				continue
			}
			run.settleN++
			if run.settleN > 400 {
				run.stats.Inconclusive = append(run.stats.Inconclusive, "settle did not converge")
				return choice{}, false
			}
			return choice{kind: "release", rec: p, name: run.core.final(p)}, true
		}
		d := 51 * time.Millisecond
		if run.settleEp {
			if !run.sc.Cfg.PersistCheck || run.settleLong >= 3 {
				return choice{}, false
			}
			// persist liveness (C11 r7): three persist pauses with nothing but system goroutines running
			run.settleLong++
			d = 3050 * time.Millisecond
		}
		run.settleEp = true
		run.core.advanceExactly(d)
		run.recordStep(StepInfo{Kind: "advance", Name: "advance", Dt: d, Forced: true})
		run.collect()
	}
}

func (run *Run) apply(ch choice) {
	si := StepInfo{Kind: ch.kind, Name: ch.name, Client: -1, Forced: run.mode != modeMain}
	switch ch.kind {
	case "release":
		point, _, owner, gid, _, _ := ch.rec.rd()
		si.Point = point
		if c, ok := run.goidTag[gid]; ok {
			si.Client = c
		}
		code := relGo
		switch point {
		case "task.exec":
			code, si.Outcome = run.taskOutcome(owner.(*stub), ch.rec)
		case "task.open":
			code = relGo
			if run.mode == modeMain && run.tape.Pick(1000) >= 1000-run.sc.Cfg.PIOErr {
				code = outIOErr
				si.Outcome = "ioerr"
				run.fault("log_writer_error")
			}
		case "store.save":
			code = saveOK
			if run.mode == modeMain && run.sc.Cfg.PSaveErr > 0 && run.tape.Pick(1000) >= 1000-run.sc.Cfg.PSaveErr {
				code = saveFail
				si.Outcome = "fail"
				run.fault("store_save_error")
			}
		case "store.save.created":
			if run.mode == modeMain && run.sc.Cfg.PSaveErr > 0 && run.tape.Pick(1000) >= 1000-run.sc.Cfg.PSaveErr {
				if w := run.worldOf(owner); w != nil {
					w.failNextSave = true
					si.Outcome = "fail"
					run.fault("store_save_error")
				}
			}
		case "ScheduleAsync":
			if run.mode == modeMain && run.sc.Cfg.PUUIDErr > 0 && run.tape.Pick(1000) >= 1000-run.sc.Cfg.PUUIDErr {
				run.gen.failNext = true
				si.Outcome = "uuid-fails"
			}
		case "Shutdown.begin":
			if w := run.worldOf(owner); w != nil && w.shutdownBegun == 0 {
				w.shutdownBegun = run.step + 1
			}
		}
		// Which goroutines are inside a SaveToStore call is told by the hook at the function's entry, not by the names of
		// the places where it takes locks (a version that splits the function keeps the entry hook, not the names).
		si.Gid = gid
		switch {
		case point == "SaveToStore":
			run.saving[gid] = &saveCall{begin: run.step + 1, atBegin: run.pre, handed: -1}
			if w := run.worldOf(owner); w != nil && run.sc.Cfg.Logs && !w.isDead() {
				w.failRemove = 0
				if run.mode == modeMain && run.sc.Cfg.PRemErr > 0 && run.tape.Pick(1000) >= 1000-run.sc.Cfg.PRemErr {
					w.failRemove = 1 + run.tape.Pick(3)
					si.Outcome = fmt.Sprintf("remove#%d-fails", w.failRemove)
				}
			}
		case !strings.HasPrefix(point, "auto.") && !strings.HasPrefix(point, "store.") && point != "out.remove":
			run.endSaveCall(gid) // the goroutine has entered something else
		}
		if run.saving[gid] != nil {
			si.InSave = true
			if w := run.worldOf(owner); w != nil && run.sc.Cfg.Logs && !w.isDead() {
				run.logsBefore = run.listLogs(w)
			}
		}
		if _, _, _, g, attr, _ := ch.rec.rd(); attr == lkR || attr == lkW {
			run.lastLock[g] = attr
			if attr == lkR && run.readersInside() > 0 {
				run.probe("read_lock_holder_ran_inside_another")
			}
		} else if attr == lkHoldR && run.readersInside() > 1 {
			run.probe("read_lock_holder_ran_inside_another")
		}
		run.mon.beforeRelease(&si, ch.rec)
		if run.CrashLog != "" {
			run.flushCrashLog()
		}
		run.core.release(ch.rec, code)
		if run.gen.failNext {
			// the request was refused before an id was needed
			run.gen.failNext = false
			si.Outcome = ""
		} else if si.Outcome == "uuid-fails" {
			run.fault("uuid_error")
		}
	case "start":
		si.Client = ch.client
		run.startClientOp(ch.client, &si)
	case "advance":
		k := 0
		if run.mode == modeMain {
			k = run.tape.Pick(len(advanceAmounts))
		}
		if k == 0 {
			si.Dt = run.core.advanceUntilArrival(time.Hour)
		} else {
			run.core.advanceExactly(advanceAmounts[k])
			si.Dt = advanceAmounts[k]
			si.Outcome = "exact"
			run.fault("stall_while_time_passes")
		}
	case "settle":
		run.mode = modeSettle
		run.settleN = 0
		run.settleEp = false
		run.settleLong = 0
		run.probe("settle")
	case "crash":
		run.crash(&si)
	case "probe":
		run.directProbe(ch.client, &si)
	}
	run.recordStep(si)
}

// recordStep closes a step: collect results, snapshot, run the monitors.
func (run *Run) recordStep(si StepInfo) {
	run.collect()
	if run.lockBusy() {
		// the runner lock is write-held across this step (by a goroutine parked at a hook point inside its critical
		// section, or by one that will never release it): the driver cannot read the runner. Results and events stay
		// pending and are judged with the next step that ends with the lock free.
		run.step++
		run.trace = append(run.trace, fmt.Sprintf("%d %.3f %s (lock busy)", run.step, time.Since(run.t0).Seconds(), si.Name))
		run.choices = append(run.choices, si.Name)
		return
	}
	run.step++
	si.N = run.step
	si.Results = run.pendRes
	run.pendRes = nil
	evs := run.core.takeEvents()
	evs = canonicalEventOrder(evs)
	now := time.Since(run.t0)
	for i := range evs {
		evs[i].Step = run.step
		evs[i].At = now
	}
	var post *Snap
	if run.cur != nil && !run.cur.isDead() && !run.sc.Cfg.NoOracle {
		post = run.snapshot(run.cur)
	}
	line := fmt.Sprintf("%d %.3f %s", si.N, now.Seconds(), si.Name)
	if si.Outcome != "" {
		line += " =" + si.Outcome
	}
	if si.Kind == "advance" {
		line += fmt.Sprintf(" +%v", si.Dt)
	}
	for _, r := range si.Results {
		line += fmt.Sprintf(" [c%d %s -> %s%s]", r.Client, r.Op.Kind, r.Job, r.Err)
	}
	for _, e := range evs {
		line += fmt.Sprintf(" {%s %s/%s %s}", e.Kind, e.Job, e.Task, e.Arg)
	}
	if run.sc.Cfg.WCrash > 0 {
		// Jobs created at the same instant are ranked by retention in an order that, after a restart, goes back to
		// Go's map iteration order (the store file lists jobs in map order). That is legal - ties are free - but it
		// is not replayable, so in configurations with restarts no two jobs get the same creation time.
		for _, r := range si.Results {
			if r.Op.Kind == "schedule" && r.Job != "" {
				run.core.advanceExactly(time.Microsecond)
				break
			}
		}
	}
	run.trace = append(run.trace, line)
	run.choices = append(run.choices, si.Name)
	if run.CrashLog != "" {
		defer run.flushCrashLog()
	}
	if post != nil {
		run.stats.AbstractSeen[post.abstract()] = true
		run.mon.onStep(&si, run.pre, post, evs)
		run.pre = post
	}
}

func (run *Run) taskOutcome(s *stub, rec *parked) (int, string) {
	_, name, _, _, _, _ := rec.rd()
	// name is task.exec:jN/task
	taskName := name[strings.LastIndex(name, "/")+1:]
	pipeline := s.pipeline
	for _, f := range run.sc.Fates {
		if f.Pipeline == pipeline && f.Task == taskName {
			if f.Fate == "fail" {
				run.fault("task_failure")
				return outFail, "fail"
			}
			return outOK, "ok"
		}
	}
	cfg := run.sc.Cfg
	if run.mode == modeDrain || (cfg.PFail == 0 && cfg.PExit0 == 0) || !cfg.TapeTasks && cfg.PExit0 == 0 {
		return outOK, "ok"
	}
	v := run.tape.Pick(1000)
	switch {
	case v >= 1000-cfg.PFail:
		run.fault("task_failure")
		return outFail, "fail"
	case v >= 1000-cfg.PFail-cfg.PExit0:
		return outExit0, "exit0"
	}
	return outOK, "ok"
}

// ---------------------------------------------------------------------------
// client operations

func (run *Run) startClientOp(c int, si *StepInfo) {
	st := run.clients[c]
	op := run.sc.Clients[c][st.next]
	st.next++
	st.busy = true
	st.op = op
	w := run.cur
	si.Name = fmt.Sprintf("start:c%d:%s", c, op.Kind)
	if op.Kind == "save" && !run.sc.Cfg.NoOracle {
		run.mon.onSaveOpStart(c)
	}
	if op.Kind == "list" && op.HTTP && !run.sc.Cfg.NoOracle {
		run.mon.onListOpStart(c)
	}
	go func() {
		raceOff()
		run.hello <- helloMsg{c, goid()}
		raceOn()
		res := run.execOp(w, c, op)
		raceOff()
		run.done <- res
		raceOn()
	}()
	synctest.Wait()
}

func classify(err error) string {
	if err == nil {
		return ""
	}
	msg := err.Error()
	switch {
	case errors.Is(err, prunner.ErrJobNotFound):
		return "notfound"
	case errors.Is(err, prunner.ErrShuttingDown):
		return "shuttingdown"
	case strings.Contains(msg, "queueing disabled"):
		return "noqueue"
	case strings.Contains(msg, "queue limit reached"):
		return "queuefull"
	case strings.Contains(msg, "is not defined"):
		return "undefined"
	case strings.Contains(msg, "already completed"):
		return "completed"
	case errors.Is(err, errUUID) || strings.Contains(msg, "generating job UUID"):
		return "uuid"
	case errors.Is(err, context.DeadlineExceeded):
		return "deadline"
	case errors.Is(err, context.Canceled):
		return "ctxcanceled"
	}
	return "other:" + msg
}

func cloneVars(v map[string]interface{}) map[string]interface{} {
	if v == nil {
		return nil
	}
	b, _ := json.Marshal(v)
	var r map[string]interface{}
	_ = json.Unmarshal(b, &r)
	return r
}

func (run *Run) execOp(w *World, c int, op Op) OpResult {
	res := OpResult{Client: c, Op: op, World: w.id}
	if (op.HTTP || op.Kind == "logs") && w.srv != nil {
		return run.execHTTP(w, res)
	}
	switch op.Kind {
	case "schedule":
		j, err := w.r.ScheduleAsync(op.Pipeline, prunner.ScheduleOpts{Variables: cloneVars(op.Vars), User: op.User})
		res.Err = classify(err)
		if err == nil {
			res.Job = jobName(j.ID)
		}
	case "cancel":
		res.Err = classify(w.r.CancelJob(mkID(uint64(op.Job))))
		res.Job = fmt.Sprintf("j%d", op.Job)
	case "read":
		res.Job = fmt.Sprintf("j%d", op.Job)
		err := w.r.ReadJob(mkID(uint64(op.Job)), func(j *prunner.PipelineJob) {
			if run.sc.Cfg.Readers {
				run.core.park("read.cb", "read.cb", w, lkHoldR)
			}
			res.Read = snapJob(j)
		})
		res.Err = classify(err)
	case "list":
		for _, p := range w.r.ListPipelines() {
			res.List = append(res.List, PipeInfo{p.Pipeline, p.Schedulable, p.Running})
		}
	case "iterate":
		w.r.IterateJobs(func(j *prunner.PipelineJob) {
			if run.sc.Cfg.Readers {
				run.core.park("iter.cb", "iter.cb", w, lkHoldR)
			}
			_ = j.Completed
		})
	case "save":
		w.r.SaveToStore()
	case "reload":
		w.r.ReplaceDefinitions(run.sc.Defs[op.Defs].toDefs())
	case "http":
		if w.srv != nil {
			return run.execAuthHTTP(w, res)
		}
	case "shutdown":
		if op.Signal {
			w.signalled = true
			w.cancel()
		}
		ctx := context.Background()
		if op.Forced {
			var cf context.CancelFunc
			// the odd nanoseconds keep the deadline from ever coinciding with a poll tick (DESIGN §2.2)
			ctx, cf = context.WithTimeout(ctx, time.Duration(op.AfterMs)*time.Millisecond+137*time.Nanosecond)
			defer cf()
		}
		res.Err = classify(w.r.Shutdown(ctx))
	}
	return res
}

func authHeader(w *World) string {
	_, tok, _ := jwtTokenAuth().Encode(map[string]interface{}{"sub": "http-user"})
	return "Bearer " + tok
}

func (run *Run) execHTTP(w *World, res OpResult) OpResult {
	op := res.Op
	var req *http.Request
	switch op.Kind {
	case "schedule":
		body, _ := json.Marshal(map[string]interface{}{"pipeline": op.Pipeline, "variables": op.Vars})
		req = httptest.NewRequest("POST", "/pipelines/schedule", bytes.NewReader(body))
	case "cancel":
		req = httptest.NewRequest("POST", "/job/cancel?id="+mkID(uint64(op.Job)).String(), nil)
		res.Job = fmt.Sprintf("j%d", op.Job)
	case "read":
		req = httptest.NewRequest("GET", "/job/detail?id="+mkID(uint64(op.Job)).String(), nil)
		res.Job = fmt.Sprintf("j%d", op.Job)
	case "list":
		req = httptest.NewRequest("GET", "/pipelines/jobs", nil)
	case "logs":
		// the log API for one task of a job, at whatever moment of the job's life the schedule puts it (workload: the
		// answers are judged at the end of the run, when everything has been written)
		var names []string
		for _, p := range w.defs.Pipelines {
			for _, t := range p.Tasks {
				names = append(names, t.Name)
			}
		}
		sort.Strings(names)
		task := "a"
		if len(names) > 0 {
			task = names[op.Route%len(names)]
		}
		req = httptest.NewRequest("GET", "/job/logs?id="+mkID(uint64(op.Job)).String()+"&task="+url.QueryEscape(task), nil)
		res.Job = fmt.Sprintf("j%d", op.Job)
	default:
		return res
	}
	req.Header.Set("Authorization", authHeader(w))
	rec := httptest.NewRecorder()
	w.srv.ServeHTTP(rec, req)
	res.Status = rec.Code
	res.Body = rec.Body.String()
	switch op.Kind {
	case "schedule":
		if rec.Code == http.StatusAccepted {
			var out struct {
				JobID string `json:"jobId"`
			}
			_ = json.Unmarshal(rec.Body.Bytes(), &out)
			if id, err := uuid.FromString(out.JobID); err == nil {
				res.Job = jobName(id)
			}
		} else {
			var out struct {
				Error string `json:"error"`
			}
			_ = json.Unmarshal(rec.Body.Bytes(), &out)
			res.Err = classify(errors.New(out.Error))
			if rec.Code == http.StatusServiceUnavailable {
				res.Err = "shuttingdown"
			}
		}
	case "cancel":
		switch rec.Code {
		case 200:
		case 404:
			res.Err = "notfound"
		default:
			res.Err = "completed"
		}
	case "read":
		if rec.Code == 404 {
			res.Err = "notfound"
		}
	}
	return res
}

// directProbe: the driver itself lists the pipelines and immediately issues a
// schedule request, with nothing in between (C15 r1).
func (run *Run) directProbe(pi int, si *StepInfo) {
	w := run.cur
	name := w.defs.Pipelines[pi].Name
	var listed *PipeInfo
	for _, p := range w.r.ListPipelines() {
		if p.Pipeline == name {
			listed = &PipeInfo{p.Pipeline, p.Schedulable, p.Running}
		}
	}
	j, err := w.r.ScheduleAsync(name, prunner.ScheduleOpts{User: "probe"})
	res := OpResult{Client: -1, Op: Op{Kind: "schedule", Pipeline: name, User: "probe"}, World: w.id, Err: classify(err)}
	if err == nil {
		res.Job = jobName(j.ID)
	}
	if listed != nil {
		res.List = []PipeInfo{*listed}
	}
	run.pendRes = append(run.pendRes, res)
	synctest.Wait()
	run.probe("schedulable_probe")
}

// ---------------------------------------------------------------------------
// crash / restart (DESIGN §2.7)

func (run *Run) crash(si *StepInfo) {
	w := run.cur
	run.fault("crash_restart")
	var initial *store.PersistedData
	var newDirSrc string
	if w.mem != nil {
		initial = w.mem.last()
		if initial == nil {
			initial = w.mem.initial // no save completed in this world: the store still holds what it started from
		}
	}
	if w.dir != "" {
		newDirSrc = w.dir
	}
	w.dead = true
	w.cancel()
	for c, st := range run.clients {
		if st.busy {
			st.busy = false
			delete(run.goidTag, st.goid)
			run.pendRes = append(run.pendRes, OpResult{Client: c, Op: st.op, World: w.id, Lost: true})
		}
	}
	run.collect() // lets the dead world's parked goroutines die
	nw, err := run.restartWorld(w, initial, newDirSrc)
	if err != nil {
		run.stats.Inconclusive = append(run.stats.Inconclusive, "restart failed: "+err.Error())
		run.mon.onRestartFailed(w, err)
		run.stopMain = true
		run.cur = nil
		return
	}
	run.cur = nw
	run.mon.onWorldStart(nw, w)
	synctest.Wait()
	run.collect()
	run.pre = run.snapshot(nw)
}

func (run *Run) restartWorld(old *World, initial *store.PersistedData, srcDir string) (*World, error) {
	if srcDir != "" {
		// the new process sees a copy of the directory as it was at the crash instant
		nd, err := run.newDir()
		if err != nil {
			return nil, err
		}
		if err := copyDir(srcDir, nd); err != nil {
			return nil, err
		}
		return run.newWorldIn(nd, initial, old.defs, old.defsIx)
	}
	return run.newWorld(initial, old.defs, old.defsIx)
}

func copyDir(src, dst string) error {
	return filepath.Walk(src, func(p string, info os.FileInfo, err error) error {
		if err != nil {
			return err
		}
		rel, _ := filepath.Rel(src, p)
		target := filepath.Join(dst, rel)
		if info.IsDir() {
			return os.MkdirAll(target, 0o777)
		}
		b, err := os.ReadFile(p)
		if err != nil {
			return err
		}
		return os.WriteFile(target, b, 0o666)
	})
}

// ---------------------------------------------------------------------------
// drain and teardown

func (run *Run) drain() {
	if run.cur == nil || run.cur.isDead() {
		return
	}
	start := run.step
	maxDelay := 11 * time.Second
	idle, stuck := 0, 0
	for run.step-start < 4000 && run.deadlock == "" {
		Heartbeat.Add(1)
		run.collect()
		pick := run.lockHolderParked()
		for _, p := range run.core.parkedQ {
			if pick != nil {
				break
			}
			if run.grantable(p) {
				pick = p
				break
			}
		}
		if pick != nil {
			idle = 0
			run.apply(choice{kind: "release", rec: pick, name: run.core.final(pick)})
			continue
		}
		dt := run.core.advanceUntilArrival(maxDelay)
		run.collect()
		if len(run.core.parkedQ) == 0 && dt >= maxDelay {
			// (an arrival that vanished again was a goroutine of a dead world: that is not idleness)
			idle++
			if idle >= 2 {
				run.stats.Drained = true
				break
			}
		} else if len(run.core.parkedQ) > 0 && dt >= maxDelay {
			// goroutines wait at lock-acquiring points, none of them can be let go without blocking on a lock, and two
			// longest delays of simulated time have changed nothing
			stuck++
			if stuck >= 2 {
				desc := run.stuckOnLock()
				if desc == "" {
					desc = run.lockCycle()
				}
				if desc != "" {
					run.declareDeadlock(desc)
					break
				}
			}
		}
		run.recordStep(StepInfo{Kind: "advance", Name: "advance", Dt: dt, Forced: true})
	}
	run.stats.DrainSteps = run.step - start
	if !run.stats.Drained && run.deadlock == "" {
		run.stats.Inconclusive = append(run.stats.Inconclusive, "drain did not terminate")
	}
}

func (run *Run) teardown() {
	for _, w := range run.worlds {
		w.dead = true
		w.cancel()
	}
	for i := 0; i < 200; i++ {
		run.collect()
		run.core.advanceUntilArrival(30 * time.Second)
		run.collect()
		if len(run.core.parkedQ) == 0 && i > 2 {
			break
		}
	}
}

// TraceHash identifies the execution: step names, fake times, results and stub events.
func (run *Run) TraceHash() string {
	h := sha256.Sum256([]byte(strings.Join(run.trace, "\n")))
	return hex.EncodeToString(h[:8])
}

func sortedKeys(m map[string]int) []string {
	ks := make([]string, 0, len(m))
	for k := range m {
		ks = append(ks, k)
	}
	sort.Strings(ks)
	return ks
}


// canonicalEventOrder: events of one step come from the goroutine that was
// released, in program order — except for two kinds that are emitted by several
// goroutines running side by side up to their first hook (job goroutines started
// by one dequeue pass) or in Go map order (log removals of one save). Those are
// moved to the end of the step and sorted by job.
func canonicalEventOrder(evs []Event) []Event {
	var rest, begin, remove []Event
	for _, e := range evs {
		switch e.Kind {
		case "exec-begin":
			begin = append(begin, e)
		case "log-remove":
			remove = append(remove, e)
		default:
			rest = append(rest, e)
		}
	}
	if len(begin) < 2 && len(remove) < 2 {
		return evs
	}
	sort.SliceStable(begin, func(i, j int) bool { return begin[i].Job < begin[j].Job })
	sort.SliceStable(remove, func(i, j int) bool { return remove[i].Job < remove[j].Job })
	return append(append(rest, begin...), remove...)
}
