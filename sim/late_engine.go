package sim

import (
	"context"
	"crypto/sha256"
	"encoding/hex"
	"encoding/json"
	"fmt"
	"io"
	"os"
	"strings"
	"time"

	"github.com/Flowpack/prunner"
	"github.com/Flowpack/prunner/definition"
	"github.com/Flowpack/prunner/taskctl"
	"github.com/Flowpack/prunner/verifhook"
	"github.com/taskctl/taskctl/pkg/variables"
)

// Late writers (C19 r6), real clock. A command that a task script puts into the
// background with `&` outlives its task - the interpreter does not wait for it -
// and writes when the task's output has long been closed. Whatever the runner
// does with those bytes, they must not turn up in the log of another task or
// job. Inside the bubble this cannot be scheduled: the driver waits for every
// real child process of a step before it takes the next one, so the late write
// always lands before anybody else opens an output. Here the real runner, the
// real FileOutputStore and real processes run on the real clock, like engine P;
// the seed fixes the scenario only, and a violation counts only if three
// executions all show it.

type LateScenario struct {
	LateMs      int  `json:"late_ms"`      // the background command writes this long after its task's last foreground command
	GapMs       int  `json:"gap_ms"`       // the bystander job is scheduled this long after the late job was reported completed
	BystanderMs int  `json:"bystander_ms"` // how long the bystander's task keeps running (its output is open meanwhile)
	SameJob     bool `json:"same_job,omitempty"` // the bystander is a second task of the same job (depends on the first) instead of another job
	Bystanders  int  `json:"bystanders"`   // 1-3 jobs/tasks that open their output after the late job's task has ended
}

func genLate(g gen) *LateScenario {
	ls := &LateScenario{LateMs: g.oneOf(150, 300, 500), GapMs: g.oneOf(0, 0, 20, 60), Bystanders: 1 + g.n(3), SameJob: g.p(300)}
	ls.BystanderMs = ls.LateMs + g.oneOf(200, 400)
	return ls
}

type lateRun struct {
	sc    *Scenario
	ls    *LateScenario
	viol  []Violation
	stats Stats
	trace []string
}

func (r *lateRun) logf(format string, a ...interface{}) {
	r.trace = append(r.trace, fmt.Sprintf(format, a...))
}

func (r *lateRun) execute() {
	Heartbeat.Add(1)
	first := r.once(0)
	r.stats.Steps = 1 + r.ls.Bystanders
	r.stats.Started = 1 + r.ls.Bystanders
	if len(first) == 0 {
		return
	}
	for a := 1; a <= 2; a++ {
		Heartbeat.Add(1)
		again := r.once(a)
		ok := false
		for _, v := range again {
			if v.Rule == first[0].Rule {
				ok = true
			}
		}
		if !ok {
			r.stats.Inconclusive = append(r.stats.Inconclusive, "a violation of "+first[0].Rule+" (late writer) did not repeat")
			return
		}
	}
	r.viol = first[:1]
}

func (r *lateRun) once(attempt int) []Violation {
	var viol []Violation
	violate := func(rule, format string, a ...interface{}) {
		viol = append(viol, Violation{"C19", rule, fmt.Sprintf(format, a...), attempt})
	}
	verifhook.Handler, verifhook.SkipHandler, verifhook.FaultHandler = nil, nil, nil
	dir, err := os.MkdirTemp("", "verif-late-")
	if err != nil {
		return nil
	}
	defer os.RemoveAll(dir)
	ls := r.ls
	lateCmd := fmt.Sprintf("{ sleep %.3f; echo LATE-OUT-of-the-first-task; echo LATE-ERR-of-the-first-task >&2; } &", float64(ls.LateMs)/1000)
	byScript := func(i int) []string {
		return []string{fmt.Sprintf("echo BY%d-START", i), fmt.Sprintf("sleep %.3f", float64(ls.BystanderMs)/1000), fmt.Sprintf("echo BY%d-END", i)}
	}
	defs := &definition.PipelinesDef{Pipelines: map[string]definition.PipelineDef{}}
	if ls.SameJob {
		tasks := map[string]definition.TaskDef{"first": {Script: []string{"echo EARLY", lateCmd}}}
		for i := 0; i < ls.Bystanders; i++ {
			tasks[fmt.Sprintf("by%d", i)] = definition.TaskDef{Script: byScript(i), DependsOn: []string{"first"}}
		}
		defs.Pipelines["late"] = definition.PipelineDef{Concurrency: 1, Tasks: tasks}
	} else {
		defs.Pipelines["late"] = definition.PipelineDef{Concurrency: 1, Tasks: map[string]definition.TaskDef{"first": {Script: []string{"echo EARLY", lateCmd}}}}
		for i := 0; i < ls.Bystanders; i++ {
			defs.Pipelines[fmt.Sprintf("by%d", i)] = definition.PipelineDef{Concurrency: 1, Tasks: map[string]definition.TaskDef{fmt.Sprintf("by%d", i): {Script: byScript(i)}}}
		}
	}
	outStore, err := taskctl.NewOutputStore(dir + "/logs")
	if err != nil {
		return nil
	}
	ctx, cancel := context.WithCancel(context.Background())
	defer cancel()
	runner, err := prunner.NewPipelineRunner(ctx, defs, func(j *prunner.PipelineJob) taskctl.Runner {
		tr, _ := taskctl.NewTaskRunner(outStore, taskctl.WithEnv(variables.FromMap(j.Env)), taskctl.WithKillTimeout(time.Second))
		tr.Stdout, tr.Stderr = io.Discard, io.Discard
		return tr
	}, nil, outStore)
	if err != nil {
		return nil
	}
	waitDone := func(j *prunner.PipelineJob, limit time.Duration) bool {
		t0 := time.Now()
		for time.Since(t0) < limit {
			done := false
			_ = runner.ReadJob(j.ID, func(x *prunner.PipelineJob) { done = x.Completed || x.Canceled })
			if done {
				return true
			}
			time.Sleep(3 * time.Millisecond)
		}
		return false
	}
	read := func(j *prunner.PipelineJob, task, stream string) string {
		rd, err := outStore.Reader(j.ID.String(), task, stream)
		if err != nil {
			return ""
		}
		defer rd.Close()
		b, _ := io.ReadAll(rd)
		return string(b)
	}
	lateJob, err := runner.ScheduleAsync("late", prunner.ScheduleOpts{})
	if err != nil {
		return nil
	}
	type by struct {
		job  *prunner.PipelineJob
		task string
		n    int
	}
	var bys []by
	if ls.SameJob {
		for i := 0; i < ls.Bystanders; i++ {
			bys = append(bys, by{lateJob, fmt.Sprintf("by%d", i), i})
		}
		if !waitDone(lateJob, time.Duration(ls.BystanderMs)*time.Millisecond*time.Duration(ls.Bystanders+1)+5*time.Second) {
			r.stats.Inconclusive = append(r.stats.Inconclusive, "late-writer job did not finish")
			return nil
		}
	} else {
		if !waitDone(lateJob, 5*time.Second) {
			r.stats.Inconclusive = append(r.stats.Inconclusive, "late-writer job did not finish")
			return nil
		}
		time.Sleep(time.Duration(ls.GapMs) * time.Millisecond)
		for i := 0; i < ls.Bystanders; i++ {
			j, err := runner.ScheduleAsync(fmt.Sprintf("by%d", i), prunner.ScheduleOpts{})
			if err != nil {
				return nil
			}
			bys = append(bys, by{j, fmt.Sprintf("by%d", i), i})
		}
		for _, b := range bys {
			if !waitDone(b.job, time.Duration(ls.BystanderMs)*time.Millisecond+5*time.Second) {
				r.stats.Inconclusive = append(r.stats.Inconclusive, "bystander job did not finish")
				return nil
			}
		}
	}
	time.Sleep(time.Duration(ls.LateMs)*time.Millisecond + 150*time.Millisecond) // the late write has happened by now, wherever it went
	for _, b := range bys {
		wantOut := fmt.Sprintf("BY%d-START\nBY%d-END\n", b.n, b.n)
		gotOut, gotErr := read(b.job, b.task, "stdout"), read(b.job, b.task, "stderr")
		r.logf("bystander %s: stdout %q stderr %q", b.task, gotOut, gotErr)
		if strings.Contains(gotOut+gotErr, "LATE-") {
			violate("r6", "task %q, which began after task \"first\" had ended, has output of that task's background command in its log: stdout %q stderr %q (scenario %+v)", b.task, gotOut, gotErr, *ls)
		} else if gotOut != wantOut || gotErr != "" {
			violate("r1", "late-writer scenario: the log store holds stdout %q stderr %q for task %q, its commands wrote %q and nothing (scenario %+v)", gotOut, gotErr, b.task, wantOut, *ls)
		}
	}
	ownOut, ownErr := read(lateJob, "first", "stdout"), read(lateJob, "first", "stderr")
	r.logf("first: stdout %q stderr %q", ownOut, ownErr)
	// the task's own log: what it wrote while it ran, in order; the late lines may or may not have made it
	if !(ownOut == "EARLY\n" || ownOut == "EARLY\nLATE-OUT-of-the-first-task\n") || !(ownErr == "" || ownErr == "LATE-ERR-of-the-first-task\n") {
		violate("r1", "late-writer scenario: the log of task \"first\" holds stdout %q stderr %q (scenario %+v)", ownOut, ownErr, *ls)
	}
	r.stats.Probes["late_writer_checked"]++
	if len(viol) > 0 {
		r.stats.Faults["late_write_after_task_end"]++
	} else {
		r.stats.Faults["late_write_after_task_end"]++
	}
	return viol
}

func lateHash(sc *Scenario, viol []Violation) string {
	b, _ := json.Marshal(sc.Late)
	rule := ""
	if len(viol) > 0 {
		rule = viol[0].Rule
	}
	h := sha256.Sum256(append(append([]byte("late"), b...), rule...))
	return hex.EncodeToString(h[:8])
}
