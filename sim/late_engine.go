package sim

import (
	"context"
	"crypto/sha256"
	"encoding/hex"
	"encoding/json"
	"fmt"
	"io"
	"net/http"
	"net/http/httptest"
	"os"
	"strings"
	"time"

	"github.com/Flowpack/prunner"
	"github.com/Flowpack/prunner/definition"
	"github.com/Flowpack/prunner/server"
	"github.com/Flowpack/prunner/taskctl"
	"github.com/Flowpack/prunner/verifhook"
	"github.com/taskctl/taskctl/pkg/variables"
)

// Late writers (C19 r6), real clock. A command that a task script puts into the
// background with `&` outlives its task - the interpreter does not wait for it -
// and writes when the task's output has long been closed. Whatever the runner
// does with those bytes, they must not turn up in the log of another task or
// job. Inside the bubble this cannot be scheduled: the driver waits for every
// real child process of a step before it takes the next one, so the late write
// always lands before anybody else opens an output. Here the real runner, the
// real FileOutputStore and real processes run on the real clock, like engine P;
// the seed fixes the scenario only, and a violation counts only if three
// executions all show it.

type LateScenario struct {
	LateMs      int  `json:"late_ms"`      // the background command writes this long after its task's last foreground command
	GapMs       int  `json:"gap_ms"`       // the bystander job is scheduled this long after the late job was reported completed
	BystanderMs int  `json:"bystander_ms"` // how long the bystander's task keeps running (its output is open meanwhile)
	SameJob     bool `json:"same_job,omitempty"` // the bystander is a second task of the same job (depends on the first) instead of another job
	Bystanders  int  `json:"bystanders"`   // 1-3 jobs/tasks that open their output after the late job's task has ended
	// Stop scenario (r7) instead of a late writer: a task writes Lines lines to each stream, keeps running, and its job
	// is canceled StopMs after the lines have reached the log store. What it wrote before it was stopped is its log.
	Stop     bool `json:"stop,omitempty"`
	StopMs   int  `json:"stop_ms,omitempty"`
	Lines    int  `json:"lines,omitempty"`
	StopHTTP bool `json:"stop_http,omitempty"` // the cancel goes through POST /job/cancel
}

func genLate(g gen) *LateScenario {
	if g.p(350) {
		return &LateScenario{Stop: true, StopMs: g.oneOf(0, 0, 20, 100), Lines: 1 + g.n(3), StopHTTP: g.p(500)}
	}
	ls := &LateScenario{LateMs: g.oneOf(150, 300, 500), GapMs: g.oneOf(0, 0, 20, 60), Bystanders: 1 + g.n(3), SameJob: g.p(300)}
	ls.BystanderMs = ls.LateMs + g.oneOf(200, 400)
	return ls
}

type lateRun struct {
	sc    *Scenario
	ls    *LateScenario
	viol  []Violation
	stats Stats
	trace []string
}

func (r *lateRun) logf(format string, a ...interface{}) {
	r.trace = append(r.trace, fmt.Sprintf(format, a...))
}

func (r *lateRun) execute() {
	Heartbeat.Add(1)
	first := r.once(0)
	r.stats.Steps = 1 + r.ls.Bystanders
	r.stats.Started = 1 + r.ls.Bystanders
	if len(first) == 0 {
		return
	}
	for a := 1; a <= 2; a++ {
		Heartbeat.Add(1)
		again := r.once(a)
		ok := false
		for _, v := range again {
			if v.Rule == first[0].Rule {
				ok = true
			}
		}
		if !ok {
			r.stats.Inconclusive = append(r.stats.Inconclusive, "a violation of "+first[0].Rule+" (late writer) did not repeat")
			return
		}
	}
	r.viol = first[:1]
}

func (r *lateRun) once(attempt int) []Violation {
	if r.ls.Stop {
		return r.onceStop(attempt)
	}
	var viol []Violation
	violate := func(rule, format string, a ...interface{}) {
		viol = append(viol, Violation{"C19", rule, fmt.Sprintf(format, a...), attempt})
	}
	verifhook.Handler, verifhook.SkipHandler, verifhook.FaultHandler = nil, nil, nil
	dir, err := os.MkdirTemp("", "verif-late-")
	if err != nil {
		return nil
	}
	defer os.RemoveAll(dir)
	ls := r.ls
	lateCmd := fmt.Sprintf("{ sleep %.3f; echo LATE-OUT-of-the-first-task; echo LATE-ERR-of-the-first-task >&2; } &", float64(ls.LateMs)/1000)
	byScript := func(i int) []string {
		return []string{fmt.Sprintf("echo BY%d-START", i), fmt.Sprintf("sleep %.3f", float64(ls.BystanderMs)/1000), fmt.Sprintf("echo BY%d-END", i)}
	}
	defs := &definition.PipelinesDef{Pipelines: map[string]definition.PipelineDef{}}
	if ls.SameJob {
		tasks := map[string]definition.TaskDef{"first": {Script: []string{"echo EARLY", lateCmd}}}
		for i := 0; i < ls.Bystanders; i++ {
			tasks[fmt.Sprintf("by%d", i)] = definition.TaskDef{Script: byScript(i), DependsOn: []string{"first"}}
		}
		defs.Pipelines["late"] = definition.PipelineDef{Concurrency: 1, Tasks: tasks}
	} else {
		defs.Pipelines["late"] = definition.PipelineDef{Concurrency: 1, Tasks: map[string]definition.TaskDef{"first": {Script: []string{"echo EARLY", lateCmd}}}}
		for i := 0; i < ls.Bystanders; i++ {
			defs.Pipelines[fmt.Sprintf("by%d", i)] = definition.PipelineDef{Concurrency: 1, Tasks: map[string]definition.TaskDef{fmt.Sprintf("by%d", i): {Script: byScript(i)}}}
		}
	}
	outStore, err := taskctl.NewOutputStore(dir + "/logs")
	if err != nil {
		return nil
	}
	ctx, cancel := context.WithCancel(context.Background())
	defer cancel()
	runner, err := prunner.NewPipelineRunner(ctx, defs, func(j *prunner.PipelineJob) taskctl.Runner {
		tr, _ := taskctl.NewTaskRunner(outStore, taskctl.WithEnv(variables.FromMap(j.Env)), taskctl.WithKillTimeout(time.Second))
		tr.Stdout, tr.Stderr = io.Discard, io.Discard
		return tr
	}, nil, outStore)
	if err != nil {
		return nil
	}
	waitDone := func(j *prunner.PipelineJob, limit time.Duration) bool {
		t0 := time.Now()
		for time.Since(t0) < limit {
			done := false
			_ = runner.ReadJob(j.ID, func(x *prunner.PipelineJob) { done = x.Completed || x.Canceled })
			if done {
				return true
			}
			time.Sleep(3 * time.Millisecond)
		}
		return false
	}
	read := func(j *prunner.PipelineJob, task, stream string) string {
		rd, err := outStore.Reader(j.ID.String(), task, stream)
		if err != nil {
			return ""
		}
		defer rd.Close()
		b, _ := io.ReadAll(rd)
		return string(b)
	}
	lateJob, err := runner.ScheduleAsync("late", prunner.ScheduleOpts{})
	if err != nil {
		return nil
	}
	type by struct {
		job  *prunner.PipelineJob
		task string
		n    int
	}
	var bys []by
	if ls.SameJob {
		for i := 0; i < ls.Bystanders; i++ {
			bys = append(bys, by{lateJob, fmt.Sprintf("by%d", i), i})
		}
		if !waitDone(lateJob, time.Duration(ls.BystanderMs)*time.Millisecond*time.Duration(ls.Bystanders+1)+5*time.Second) {
			r.stats.Inconclusive = append(r.stats.Inconclusive, "late-writer job did not finish")
			return nil
		}
	} else {
		if !waitDone(lateJob, 5*time.Second) {
			r.stats.Inconclusive = append(r.stats.Inconclusive, "late-writer job did not finish")
			return nil
		}
		time.Sleep(time.Duration(ls.GapMs) * time.Millisecond)
		for i := 0; i < ls.Bystanders; i++ {
			j, err := runner.ScheduleAsync(fmt.Sprintf("by%d", i), prunner.ScheduleOpts{})
			if err != nil {
				return nil
			}
			bys = append(bys, by{j, fmt.Sprintf("by%d", i), i})
		}
		for _, b := range bys {
			if !waitDone(b.job, time.Duration(ls.BystanderMs)*time.Millisecond+5*time.Second) {
				r.stats.Inconclusive = append(r.stats.Inconclusive, "bystander job did not finish")
				return nil
			}
		}
	}
	time.Sleep(time.Duration(ls.LateMs)*time.Millisecond + 150*time.Millisecond) // the late write has happened by now, wherever it went
	for _, b := range bys {
		wantOut := fmt.Sprintf("BY%d-START\nBY%d-END\n", b.n, b.n)
		gotOut, gotErr := read(b.job, b.task, "stdout"), read(b.job, b.task, "stderr")
		r.logf("bystander %s: stdout %q stderr %q", b.task, gotOut, gotErr)
		if strings.Contains(gotOut+gotErr, "LATE-") {
			violate("r6", "task %q, which began after task \"first\" had ended, has output of that task's background command in its log: stdout %q stderr %q (scenario %+v)", b.task, gotOut, gotErr, *ls)
		} else if gotOut != wantOut || gotErr != "" {
			violate("r1", "late-writer scenario: the log store holds stdout %q stderr %q for task %q, its commands wrote %q and nothing (scenario %+v)", gotOut, gotErr, b.task, wantOut, *ls)
		}
	}
	ownOut, ownErr := read(lateJob, "first", "stdout"), read(lateJob, "first", "stderr")
	r.logf("first: stdout %q stderr %q", ownOut, ownErr)
	// the task's own log: what it wrote while it ran, in order; the late lines may or may not have made it
	if !(ownOut == "EARLY\n" || ownOut == "EARLY\nLATE-OUT-of-the-first-task\n") || !(ownErr == "" || ownErr == "LATE-ERR-of-the-first-task\n") {
		violate("r1", "late-writer scenario: the log of task \"first\" holds stdout %q stderr %q (scenario %+v)", ownOut, ownErr, *ls)
	}
	r.stats.Probes["late_writer_checked"]++
	if len(viol) > 0 {
		r.stats.Faults["late_write_after_task_end"]++
	} else {
		r.stats.Faults["late_write_after_task_end"]++
	}
	return viol
}

// onceStop: a task that has written something and is then stopped. Its status says "canceled", and what it wrote
// before is still what the log store holds and what GET /job/logs returns.
func (r *lateRun) onceStop(attempt int) []Violation {
	var viol []Violation
	violate := func(rule, format string, a ...interface{}) {
		viol = append(viol, Violation{"C19", rule, fmt.Sprintf(format, a...), attempt})
	}
	verifhook.Handler, verifhook.SkipHandler, verifhook.FaultHandler = nil, nil, nil
	dir, err := os.MkdirTemp("", "verif-stop-")
	if err != nil {
		return nil
	}
	defer os.RemoveAll(dir)
	ls := r.ls
	var script []string
	wantOut, wantErr := "", ""
	for i := 0; i < ls.Lines; i++ {
		script = append(script, fmt.Sprintf("echo OUT-%d-before-the-stop", i), fmt.Sprintf("echo ERR-%d-before-the-stop >&2", i))
		wantOut += fmt.Sprintf("OUT-%d-before-the-stop\n", i)
		wantErr += fmt.Sprintf("ERR-%d-before-the-stop\n", i)
	}
	script = append(script, "sleep 20")
	defs := &definition.PipelinesDef{Pipelines: map[string]definition.PipelineDef{
		"stop": {Concurrency: 1, Tasks: map[string]definition.TaskDef{
			"t":     {Script: script},
			"after": {Script: []string{"echo NEVER"}, DependsOn: []string{"t"}},
		}},
	}}
	outStore, err := taskctl.NewOutputStore(dir + "/logs")
	if err != nil {
		return nil
	}
	ctx, cancel := context.WithCancel(context.Background())
	defer cancel()
	runner, err := prunner.NewPipelineRunner(ctx, defs, func(j *prunner.PipelineJob) taskctl.Runner {
		tr, _ := taskctl.NewTaskRunner(outStore, taskctl.WithEnv(variables.FromMap(j.Env)), taskctl.WithKillTimeout(time.Second))
		tr.Stdout, tr.Stderr = io.Discard, io.Discard
		return tr
	}, nil, outStore)
	if err != nil {
		return nil
	}
	srv := server.NewServer(runner, outStore, func(h http.Handler) http.Handler { return h }, jwtTokenAuth(), false)
	read := func(id, task, stream string) string {
		rd, err := outStore.Reader(id, task, stream)
		if err != nil {
			return ""
		}
		defer rd.Close()
		b, _ := io.ReadAll(rd)
		return string(b)
	}
	job, err := runner.ScheduleAsync("stop", prunner.ScheduleOpts{})
	if err != nil {
		return nil
	}
	id := job.ID.String()
	t0 := time.Now()
	for read(id, "t", "stdout") != wantOut || read(id, "t", "stderr") != wantErr {
		if time.Since(t0) > 5*time.Second {
			r.stats.Inconclusive = append(r.stats.Inconclusive, "stop scenario: the task's first lines did not reach the log store within 5 s")
			_ = runner.CancelJob(job.ID)
			return nil
		}
		time.Sleep(3 * time.Millisecond)
	}
	time.Sleep(time.Duration(ls.StopMs) * time.Millisecond)
	if ls.StopHTTP {
		req := httptest.NewRequest("POST", "/job/cancel?id="+id, nil)
		req.Header.Set("Authorization", authHeader(nil))
		rec := httptest.NewRecorder()
		srv.ServeHTTP(rec, req)
		if rec.Code != http.StatusOK {
			r.stats.Inconclusive = append(r.stats.Inconclusive, fmt.Sprintf("stop scenario: POST /job/cancel answered %d", rec.Code))
			_ = runner.CancelJob(job.ID)
			return nil
		}
	} else if err := runner.CancelJob(job.ID); err != nil {
		r.stats.Inconclusive = append(r.stats.Inconclusive, "stop scenario: CancelJob: "+err.Error())
		return nil
	}
	t0 = time.Now()
	for {
		done, status := false, ""
		_ = runner.ReadJob(job.ID, func(x *prunner.PipelineJob) {
			done = x.Completed
			if jt := x.Tasks.ByName("t"); jt != nil {
				status = jt.Status
			}
		})
		if done {
			r.logf("stopped: task status %q", status)
			if status == "canceled" {
				r.stats.Probes["stopped_task_reported_canceled"]++
			}
			break
		}
		if time.Since(t0) > 8*time.Second {
			r.stats.Inconclusive = append(r.stats.Inconclusive, "stop scenario: the canceled job did not finish within 8 s")
			return nil
		}
		time.Sleep(3 * time.Millisecond)
	}
	gotOut, gotErr := read(id, "t", "stdout"), read(id, "t", "stderr")
	r.logf("store: stdout %q stderr %q", gotOut, gotErr)
	if gotOut != wantOut || gotErr != wantErr {
		violate("r1", "stop scenario: the log store holds stdout %q stderr %q for the stopped task, its commands wrote %q and %q before the stop (scenario %+v)", gotOut, gotErr, wantOut, wantErr, *ls)
	}
	req := httptest.NewRequest("GET", "/job/logs?id="+id+"&task=t", nil)
	req.Header.Set("Authorization", authHeader(nil))
	rec := httptest.NewRecorder()
	srv.ServeHTTP(rec, req)
	var body struct {
		Stdout string `json:"stdout"`
		Stderr string `json:"stderr"`
	}
	if rec.Code != http.StatusOK || json.Unmarshal(rec.Body.Bytes(), &body) != nil {
		violate("r2", "stop scenario: GET /job/logs for the stopped task answered %d", rec.Code)
	} else if body.Stdout != wantOut || body.Stderr != wantErr {
		violate("r2", "stop scenario: GET /job/logs returns stdout %q stderr %q for the stopped task, its commands wrote %q and %q before the stop (scenario %+v)", body.Stdout, body.Stderr, wantOut, wantErr, *ls)
	}
	if o := read(id, "after", "stdout"); o != "" {
		violate("r1", "stop scenario: task \"after\" depends on the stopped task and never ran, the log store holds %q for it", o)
	}
	r.stats.Probes["stopped_task_log_checked"]++
	r.stats.Faults["cancel_after_output"]++
	return viol
}

func lateHash(sc *Scenario, viol []Violation) string {
	b, _ := json.Marshal(sc.Late)
	rule := ""
	if len(viol) > 0 {
		rule = viol[0].Rule
	}
	h := sha256.Sum256(append(append([]byte("late"), b...), rule...))
	return hex.EncodeToString(h[:8])
}
