package sim

import (
	"context"
	"encoding/hex"
	"encoding/json"
	"errors"
	"fmt"
	"io"
	"net/http"
	"net/http/httptest"
	"net/url"
	"sort"
	"strings"

	"github.com/taskctl/taskctl/pkg/task"
	"github.com/taskctl/taskctl/pkg/variables"

	"github.com/Flowpack/prunner"
	"github.com/Flowpack/prunner/taskctl"
)

// Engine C, in-bubble part (DESIGN §2.1, §5 C18/C19): the real taskctl.TaskRunner,
// PgidExecutor, mvdan/sh interpreter and real child processes, with the
// interleaving of job and stage goroutines still decided by the tape. These runs
// are replayable as scenarios, not bit for bit (the kernel schedules the children).

type realRunner struct {
	world    *World
	core     *Core
	job      string
	pipeline string
	ordinal  int
	inner    *taskctl.TaskRunner
	passSnap map[string]int32
	begun    bool
	entered  map[string]bool
}

var _ jobRunner = &realRunner{}

func (r *realRunner) jobName() string         { return r.job }
func (r *realRunner) theWorld() *World        { return r.world }
func (r *realRunner) pass() *map[string]int32 { return &r.passSnap }
func (r *realRunner) markBegun() bool         { b := !r.begun; r.begun = true; return b }
func (r *realRunner) ev(kind, taskName, arg string) {
	if r.world.isDead() {
		return
	}
	r.core.emit(Event{Kind: kind, World: r.world.id, Job: r.job, Task: taskName, Arg: arg, Stub: r.ordinal, At: -1})
}

func (r *realRunner) SetOnTaskChange(f func(t *task.Task)) {
	r.inner.SetOnTaskChange(func(t *task.Task) {
		// the first notification of a task comes right before its first command is executed
		if !r.entered[t.Name] {
			r.entered[t.Name] = true
			r.ev("run-enter", t.Name, "")
		}
		f(t)
	})
}

func (r *realRunner) Run(t *task.Task) error {
	err := r.inner.Run(t)
	if !r.entered[t.Name] {
		if errors.Is(err, context.Canceled) {
			r.ev("run-refused", t.Name, "")
			return err
		}
		// a task without commands, or one that failed before its first command
		r.entered[t.Name] = true
		r.ev("run-enter", t.Name, "")
	}
	switch {
	case err == nil && !t.Errored && t.ExitCode == 0:
		r.ev("run-exit", t.Name, "ok")
	case err == nil:
		r.ev("run-exit", t.Name, "fail-allowed")
	case errors.Is(err, context.Canceled):
		r.ev("run-exit", t.Name, "killed")
	default:
		r.ev("run-exit", t.Name, "fail")
	}
	return err
}

func (r *realRunner) Cancel() {
	r.core.park("runner.cancel", "runner.cancel:"+r.job, r, lkNone)
	r.ev("cancel-delivered", "", "")
	r.inner.Cancel()
}

func (r *realRunner) Finish() {
	r.ev("finish", "", "")
	r.inner.Finish()
}

func (w *World) newReal(j *prunner.PipelineJob) *realRunner {
	name := jobName(j.ID)
	inner, _ := taskctl.NewTaskRunner(w.out, taskctl.WithEnv(variables.FromMap(j.Env)))
	inner.Stdout, inner.Stderr = io.Discard, io.Discard
	r := &realRunner{world: w, core: w.run.core, job: name, pipeline: j.Pipeline, inner: inner, entered: map[string]bool{}}
	w.stubsMu.Lock()
	w.realCount[name]++
	r.ordinal = w.realCount[name]
	w.stubsMu.Unlock()
	r.ev("created", "", "")
	return r
}

// ---------------------------------------------------------------------------
// C18: environment and variables

var envNames = []string{"VERIF_E1", "VERIF_E2", "VERIF_E3", "VERIF_E4"}

var valuePool = []string{"plain", "two words", "", "quo\"te and 'single'", "line1\nline2", "$HOME ${X} `id`", "a=b=c", "ünï©ode ✓", "  lead and trail  ", "back\\slash", "semi;colon & amp | pipe", "glob * ? [a]"}

func hexOf(s string) string { return hex.EncodeToString([]byte(s)) }

// envProbeCommands: what every generated task runs to report what it sees.
func envProbeCommands(varKeys []string) []string {
	var cmds []string
	for _, n := range envNames {
		// seen by the interpreter (built-ins) ...
		cmds = append(cmds, fmt.Sprintf(`printf 'B %s %%s ' "${%s+set}"; printf '%%s' "$%s" | od -An -v -tx1 | tr -d ' \n'; echo`, n, n, n))
		// ... and by an exec'd process
		cmds = append(cmds, fmt.Sprintf(`/bin/sh -c 'printf "X %s %%s " "${%s+set}"; printf "%%s" "$%s" | od -An -v -tx1 | tr -d " \n"; echo'`, n, n, n))
	}
	cmds = append(cmds, `printf 'T TASK_NAME %s\n' "$TASK_NAME"`)
	for _, k := range varKeys {
		cmds = append(cmds, fmt.Sprintf("printf 'V %s '; od -An -v -tx1 <<'VERIF_EOT' | tr -d ' \\n'; echo\n%s\nVERIF_EOT", k, varTemplate(k)))
	}
	return cmds
}

// The second letter of a variable key says how the generated scripts use it: s scalar ({{.k}}),
// b boolean ({{if .k}}), l list ({{range .k}}), m map ({{.k.inner}}) - so that a value that loses its
// type on the way to the template renders differently.
func varTemplate(k string) string {
	switch k[1] {
	case 'b':
		return "{{if ." + k + "}}TRUE{{else}}FALSE{{end}}"
	case 'l':
		return "{{range ." + k + "}}<{{.}}>{{end}}"
	case 'm':
		return "{{." + k + ".inner}}"
	}
	return "{{." + k + "}}"
}

func varRendering(k string, v interface{}) string {
	switch k[1] {
	case 'b':
		if b, _ := v.(bool); b {
			return "TRUE"
		}
		return "FALSE"
	case 'l':
		out := ""
		if l, ok := v.([]interface{}); ok {
			for _, x := range l {
				out += "<" + fmt.Sprint(x) + ">"
			}
		}
		return out
	case 'm':
		if m, ok := v.(map[string]interface{}); ok {
			return fmt.Sprint(m["inner"])
		}
	}
	return fmt.Sprint(v)
}

func generateEnvScenario(g gen, sc *Scenario) {
	sc.ProcEnv = map[string]string{}
	val := func(tag string) string { return tag + ":" + valuePool[g.n(len(valuePool))] }
	for _, n := range envNames {
		if g.p(500) {
			sc.ProcEnv[n] = val("proc")
		}
	}
	np := 1 + g.n(2)
	var ds DefSet
	keysOf := map[string][]string{}
	for i := 0; i < np; i++ {
		p := PipeS{Name: pipeNames[i], Concurrency: 1 + g.n(2)}
		for _, n := range envNames {
			if g.p(400) {
				if p.Env == nil {
					p.Env = map[string]string{}
				}
				p.Env[n] = val("pipe-" + p.Name)
			}
		}
		var keys []string
		for k := 0; k < g.n(4); k++ {
			keys = append(keys, fmt.Sprintf("k%c%d", "ssblm"[g.n(5)], k))
		}
		keysOf[p.Name] = keys
		nt := 1 + g.n(2)
		for t := 0; t < nt; t++ {
			ts := TaskS{Name: taskNames[t], Script: envProbeCommands(keys)}
			if t > 0 && g.p(500) {
				ts.DependsOn = []string{taskNames[0]}
			}
			for _, n := range envNames {
				if g.p(350) {
					if ts.Env == nil {
						ts.Env = map[string]string{}
					}
					ts.Env[n] = val("task-" + p.Name + "-" + ts.Name)
				}
			}
			p.Tasks = append(p.Tasks, ts)
		}
		ds.Pipelines = append(ds.Pipelines, p)
	}
	sc.Defs = []DefSet{ds}
	if g.p(400) {
		// a second definition set with the same tasks but other environment values, installed by a reload
		nd := cloneDefSet(ds)
		for pi := range nd.Pipelines {
			p := &nd.Pipelines[pi]
			for _, n := range envNames {
				if g.p(400) {
					if p.Env == nil {
						p.Env = map[string]string{}
					}
					p.Env[n] = val("pipe2-" + p.Name)
				} else if g.p(300) {
					delete(p.Env, n)
				}
				for ti := range p.Tasks {
					if g.p(300) {
						if p.Tasks[ti].Env == nil {
							p.Tasks[ti].Env = map[string]string{}
						}
						p.Tasks[ti].Env[n] = val("task2-" + p.Name + "-" + p.Tasks[ti].Name)
					} else if g.p(300) {
						delete(p.Tasks[ti].Env, n)
					}
				}
			}
		}
		sc.Defs = append(sc.Defs, nd)
	}
	nClients := 1 + g.n(2)
	op := 0
	for c := 0; c < nClients; c++ {
		var prog []Op
		for i := 0; i < 1+g.n(2); i++ {
			p := ds.Pipelines[g.n(len(ds.Pipelines))]
			vars := map[string]interface{}{}
			for _, k := range keysOf[p.Name] {
				op++
				switch k[1] {
				case 'b':
					vars[k] = g.p(500)
				case 'l':
					vars[k] = []interface{}{float64(op), "x y", fmt.Sprintf("e%d", op)}
				case 'm':
					vars[k] = map[string]interface{}{"inner": fmt.Sprintf("in%d", op), "other": float64(op)}
				default:
					if g.p(300) {
						vars[k] = float64(op)
					} else {
						vars[k] = fmt.Sprintf("var%d:%s", op, valuePool[g.n(len(valuePool))])
					}
				}
			}
			o := Op{Kind: "schedule", Pipeline: p.Name, Vars: vars, User: fmt.Sprintf("u%d", c)}
			if g.p(60) {
				o.Vars["__jobID"] = "00000000-0000-4000-8000-000000000001"
			}
			prog = append(prog, o)
			if len(sc.Defs) > 1 && g.p(400) {
				prog = append(prog, Op{Kind: "reload", Defs: 1})
			}
		}
		sc.Clients = append(sc.Clients, prog)
	}
	sc.Cfg = RunConfig{Store: "none", Logs: true, RealRunner: true, MaxSteps: 1500, WParked: 4, WClient: 3, WAdvance: 1}
}

// checkEnvLogs (C18): what every command of every finished task reported.
func (m *monState) checkEnvLogs() {
	run := m.run
	w := run.cur
	s := run.pre
	for _, name := range m.order {
		a := m.acc[name]
		j := s.Jobs[name]
		if j == nil || a.World != w.id {
			continue
		}
		if a.BadGraph {
			// the reserved name is refused; nothing may be logged under any job id for it
			if logs := run.listLogs(w); len(logs) > 0 {
				for path := range logs {
					if strings.HasPrefix(path, j.ID+"/") {
						run.violate("C18", "r5", "job %s used the reserved variable name, was refused, and still has a log file %s", name, path)
					}
				}
			}
			if !j.Canceled || !j.HasError {
				run.violate("C18", "r5", "job %s used the reserved variable name but is reported %s err=%q", name, brief(j), j.LastError)
			}
			run.probe("reserved_variable_refused")
			continue
		}
		for _, ts := range a.Def.Tasks {
			if arg, ok := m.exitOf(name, ts.Name); !ok || arg != "ok" {
				continue
			}
			rd, err := w.out.Reader(j.ID, ts.Name, "stdout")
			if err != nil {
				run.violate("C18", "r0", "job %s task %s finished successfully but its output cannot be read: %v", name, ts.Name, err)
				continue
			}
			b, _ := io.ReadAll(rd)
			rd.Close()
			got := map[string]string{}
			for _, line := range strings.Split(string(b), "\n") {
				f := strings.SplitN(line, " ", 4)
				if len(f) >= 3 {
					rest := ""
					if len(f) == 4 {
						rest = f[3]
					}
					got[f[0]+" "+f[1]] = f[2] + " " + rest
				}
			}
			for _, n := range envNames {
				want := " "
				src := "unset"
				if v, ok := ts.Env[n]; ok {
					want, src = "set "+hexOf(v), "task level"
				} else if v, ok := a.Def.Env[n]; ok {
					want, src = "set "+hexOf(v), "pipeline level"
				} else if v, ok := run.sc.ProcEnv[n]; ok {
					want, src = "set "+hexOf(v), "process level"
				}
				for _, kind := range []string{"B", "X"} {
					g, seen := got[kind+" "+n]
					if !seen {
						run.violate("C18", "r1", "job %s task %s: no report for %s (%s)", name, ts.Name, n, kind)
						continue
					}
					if strings.TrimRight(g, " ") != strings.TrimRight(want, " ") {
						run.violate("C18", "r1", "job %s task %s: %s as seen by %s is %q, expected %q (%s)", name, ts.Name, n,
							map[string]string{"B": "the interpreter", "X": "an executed process"}[kind], unhexReport(g), unhexReport(want), src)
					}
				}
				run.probe("env_" + strings.ReplaceAll(src, " ", "_"))
			}
			if tn := got["T TASK_NAME"]; strings.TrimSpace(tn) != ts.Name {
				run.violate("C18", "r2", "job %s task %s: TASK_NAME is %q", name, ts.Name, tn)
			}
			for k, v := range a.Vars {
				if len(k) < 3 || k[0] != 'k' {
					continue
				}
				g, seen := got["V "+k]
				want := hexOf(varRendering(k, v) + "\n")
				if !seen || strings.TrimSpace(g) != want {
					gb, _ := hex.DecodeString(strings.TrimSpace(g))
					run.violate("C18", "r3", "job %s task %s: the template %s is rendered as %q, the job was scheduled with %s=%v (expected %q)", name, ts.Name, varTemplate(k), string(gb), k, v, varRendering(k, v))
				}
				run.probe("variable_rendered")
			}
			run.probe("env_task_checked")
		}
	}
}

func unhexReport(s string) string {
	f := strings.Fields(s)
	if len(f) == 2 {
		if b, err := hex.DecodeString(f[1]); err == nil {
			return "set:" + string(b)
		}
	}
	if len(f) == 1 && f[0] == "set" {
		return "set:"
	}
	return "unset"
}

// ---------------------------------------------------------------------------
// C19: output capture

// OutSpec: one command of a generated task and what it writes.
type OutSpec struct {
	Stream string `json:"stream"` // out | err | both
	Kind   string `json:"kind"`   // text | fill | lines | empty | wide
	Text   string `json:"text,omitempty"`
	N      int    `json:"n,omitempty"`
	Ch     string `json:"ch,omitempty"`
}

func (o OutSpec) command() string {
	redir := ""
	if o.Stream == "err" {
		redir = " 1>&2"
	}
	switch o.Kind {
	case "text":
		return fmt.Sprintf("printf '%%s' '%s'%s", o.Text, redir)
	case "lines":
		return fmt.Sprintf("printf '%%s\\n' '%s' '%s'%s", o.Text, o.Text+"-2", redir)
	case "fill":
		return fmt.Sprintf("{ head -c %d /dev/zero | tr '\\0' '%s'; }%s", o.N, o.Ch, redir)
	case "wide":
		return fmt.Sprintf("{ head -c %d /dev/zero | tr '\\0' 'a' | sed 's/a/ü/g'; }%s", o.N, redir)
	case "both":
		return fmt.Sprintf("printf '%%s' '%s-o1'; printf '%%s' '%s-e1' 1>&2; printf '%%s' '%s-o2'", o.Text, o.Text, o.Text)
	case "parallel":
		// several processes of one command write to the same stream at once
		return fmt.Sprintf("{ head -c %d /dev/zero | tr '\\0' 'x' & head -c %d /dev/zero | tr '\\0' 'y' & head -c %d /dev/zero | tr '\\0' 'z' & wait; }%s", o.N, o.N, o.N, redir)
	}
	return "true"
}

func (o OutSpec) written() (stdout, stderr string) {
	var s string
	switch o.Kind {
	case "text":
		s = o.Text
	case "lines":
		s = o.Text + "\n" + o.Text + "-2\n"
	case "fill":
		s = strings.Repeat(o.Ch, o.N)
	case "wide":
		s = strings.Repeat("ü", o.N)
	case "both":
		return o.Text + "-o1" + o.Text + "-o2", o.Text + "-e1"
	case "parallel":
		// the order in which the three writers' bytes arrive is not determined: the oracle compares sorted bytes
		s = strings.Repeat("x", o.N) + strings.Repeat("y", o.N) + strings.Repeat("z", o.N)
	default:
		return "", ""
	}
	if o.Stream == "err" {
		return "", s
	}
	return s, ""
}

func generateOutputScenario(g gen, sc *Scenario) {
	np := 1 + g.n(2)
	var ds DefSet
	sc.Outputs = map[string][]OutSpec{}
	// (several of these differ only in characters a careless file-name sanitiser would fold together)
	odd := []string{"a", "b", "with space", "with_space", "with:space", "d.e", "d_e", "f-g_h", "ü", "u"}
	for i := 0; i < np; i++ {
		p := PipeS{Name: pipeNames[i], Concurrency: 1 + g.n(3)}
		nt := 1 + g.n(4)
		used := map[string]bool{}
		for t := 0; t < nt; t++ {
			tn := odd[g.n(len(odd))]
			if used[tn] {
				tn = taskNames[t]
			}
			used[tn] = true
			ts := TaskS{Name: tn}
			nc := 1 + g.n(4)
			var specs []OutSpec
			for c := 0; c < nc; c++ {
				o := OutSpec{Stream: []string{"out", "out", "err"}[g.n(3)], Text: fmt.Sprintf("%s/%s/c%d:%s", p.Name, strings.ReplaceAll(tn, " ", "_"), c, []string{"rec", "part ial", "ünï ✓", "x"}[g.n(4)])}
				switch g.n(10) {
				case 0:
					o.Kind = "empty"
				case 1, 2:
					o.Kind, o.N, o.Ch = "fill", []int{1, 4095, 4096, 65536, 70001, 1 << 20, 4 << 20}[g.n(7)], string(rune('a'+g.n(23)))
				case 3:
					o.Kind, o.N = "wide", []int{10, 16383, 16384, 20000}[g.n(4)]
				case 4:
					o.Kind = "lines"
				case 5:
					o.Kind = "both"
				case 6:
					o.Kind, o.N = "parallel", []int{1000, 70000, 300000}[g.n(3)]
				default:
					o.Kind = "text"
				}
				specs = append(specs, o)
				ts.Script = append(ts.Script, o.command())
			}
			sc.Outputs[p.Name+"/"+tn] = specs
			p.Tasks = append(p.Tasks, ts)
		}
		ds.Pipelines = append(ds.Pipelines, p)
	}
	sc.Defs = []DefSet{ds}
	// In 30% of the scenarios jobs are canceled as well. A child process cannot be stopped half-way here (the driver
	// waits for it), but a cancel can land between the end of a task's last command and the runner taking note of
	// it: such a task is reported as canceled although it ran to its end, and what it wrote is still its log.
	cancels := g.p(300)
	for c := 0; c < 1+g.n(3); c++ {
		var prog []Op
		for i := 0; i < 1+g.n(2); i++ {
			prog = append(prog, Op{Kind: "schedule", Pipeline: ds.Pipelines[g.n(len(ds.Pipelines))].Name, User: fmt.Sprintf("u%d", c)})
			if cancels && g.p(500) {
				prog = append(prog, Op{Kind: "cancel", Job: 1 + g.n(4)})
			}
			for g.p(450) {
				// somebody reads the logs while the jobs run
				prog = append(prog, Op{Kind: "logs", Job: 1 + g.n(4), Route: g.n(64)})
			}
		}
		sc.Clients = append(sc.Clients, prog)
	}
	sc.Cfg = RunConfig{Store: "none", Logs: true, RealRunner: true, HTTP: true, MaxSteps: 1500, WParked: 4, WClient: 3, WAdvance: 1}
}

// logsOfQuietTasks asks the log API for every task of the job that has produced
// nothing (yet): a task that waits, was skipped, or belongs to a job that never
// started. The answers are not judged beyond "no output of anybody else" - what
// matters is that such requests happen before the logs of other tasks are read
// (a handler that mishandles the empty case must not spoil later answers).
func (m *monState) logsOfQuietTasks(name string, j *JobSnap) {
	run := m.run
	w := run.cur
	a := m.acc[name]
	if w == nil || w.srv == nil || a == nil || j == nil {
		return
	}
	for _, ts := range a.Def.Tasks {
		if len(m.eventsFor(name, "run-enter", ts.Name)) > 0 {
			continue
		}
		req := httptest.NewRequest("GET", "/job/logs?id="+j.ID+"&task="+url.QueryEscape(ts.Name), nil)
		req.Header.Set("Authorization", authHeader(w))
		rec := httptest.NewRecorder()
		w.srv.ServeHTTP(rec, req)
		var body struct {
			Stdout string `json:"stdout"`
			Stderr string `json:"stderr"`
		}
		if rec.Code == http.StatusOK && json.Unmarshal(rec.Body.Bytes(), &body) == nil && body.Stdout+body.Stderr != "" {
			run.violate("C19", "r5", "job %s task %q has not begun to run, GET /job/logs returns %d/%d bytes of output for it (%.40q)", name, ts.Name, len(body.Stdout), len(body.Stderr), body.Stdout+body.Stderr)
		}
		run.probe("log_api_quiet_task")
	}
}

func (m *monState) checkOutputLogs() {
	run := m.run
	w := run.cur
	s := run.pre
	for _, name := range m.order {
		if a := m.acc[name]; a != nil && a.World == w.id {
			m.logsOfQuietTasks(name, s.Jobs[name])
		}
	}
	for _, name := range m.order {
		a := m.acc[name]
		j := s.Jobs[name]
		if j == nil || a.World != w.id {
			continue
		}
		for _, ts := range a.Def.Tasks {
			if arg, ok := m.exitOf(name, ts.Name); !ok || arg != "ok" {
				continue
			}
			wantOut, wantErr := "", ""
			for _, o := range run.sc.Outputs[a.Pipeline+"/"+ts.Name] {
				so, se := o.written()
				wantOut += so
				wantErr += se
			}
			for stream, want := range map[string]string{"stdout": wantOut, "stderr": wantErr} {
				rd, err := w.out.Reader(j.ID, ts.Name, stream)
				if err != nil {
					run.violate("C19", "r0", "job %s task %q: %s cannot be read from the log store: %v", name, ts.Name, stream, err)
					continue
				}
				b, _ := io.ReadAll(rd)
				rd.Close()
				if normParallel(string(b)) != normParallel(want) {
					run.violate("C19", "r1", "job %s task %q: the log store holds %d bytes of %s, the commands wrote %d (%s)", name, ts.Name, len(b), stream, len(want), firstDiff(string(b), want))
				}
			}
			// the log API
			if w.srv != nil {
				req := httptest.NewRequest("GET", "/job/logs?id="+j.ID+"&task="+url.QueryEscape(ts.Name), nil)
				req.Header.Set("Authorization", authHeader(w))
				rec := httptest.NewRecorder()
				w.srv.ServeHTTP(rec, req)
				var body struct {
					Stdout string `json:"stdout"`
					Stderr string `json:"stderr"`
				}
				if rec.Code != http.StatusOK || json.Unmarshal(rec.Body.Bytes(), &body) != nil {
					run.violate("C19", "r2", "job %s task %q: GET /job/logs answered %d", name, ts.Name, rec.Code)
				} else if normParallel(body.Stdout) != normParallel(wantOut) || normParallel(body.Stderr) != normParallel(wantErr) {
					run.violate("C19", "r2", "job %s task %q: GET /job/logs returns %d/%d bytes (stdout/stderr), the commands wrote %d/%d (%s)", name, ts.Name, len(body.Stdout), len(body.Stderr), len(wantOut), len(wantErr), firstDiff(body.Stdout+"|"+body.Stderr, wantOut+"|"+wantErr))
				}
				run.probe("log_api_checked")
			}
			if len(wantOut)+len(wantErr) >= 1<<20 {
				run.probe("output_megabytes")
			}
			run.probe("output_task_checked")
		}
		// a task the job does not have
		if w.srv != nil {
			req := httptest.NewRequest("GET", "/job/logs?id="+j.ID+"&task=no_such_task", nil)
			req.Header.Set("Authorization", authHeader(w))
			rec := httptest.NewRecorder()
			w.srv.ServeHTTP(rec, req)
			if rec.Code != http.StatusNotFound {
				run.violate("C19", "r3", "job %s: GET /job/logs for a task the job does not have answered %d", name, rec.Code)
			}
		}
	}
	// no log directory belongs to a job that does not exist
	known := map[string]bool{}
	for _, j := range s.Jobs {
		known[j.ID] = true
	}
	for path := range run.listLogs(w) {
		if id := strings.SplitN(path, "/", 2)[0]; !known[id] {
			run.violate("C19", "r4", "the log store contains %s, which belongs to no job", path)
		}
	}
}

// normParallel sorts every maximal run of the letters x, y, z (what the "parallel" commands write
// concurrently, in an order the kernel decides) so that only the byte counts of such runs matter.
func normParallel(s string) string {
	b := []byte(s)
	i := 0
	for i < len(b) {
		if b[i] != 'x' && b[i] != 'y' && b[i] != 'z' {
			i++
			continue
		}
		j := i
		var n [3]int
		for j < len(b) && (b[j] == 'x' || b[j] == 'y' || b[j] == 'z') {
			n[b[j]-'x']++
			j++
		}
		k := i
		for c := 0; c < 3; c++ {
			for m := 0; m < n[c]; m++ {
				b[k] = byte('x' + c)
				k++
			}
		}
		i = j
	}
	return string(b)
}

func firstDiff(got, want string) string {
	n := len(got)
	if len(want) < n {
		n = len(want)
	}
	for i := 0; i < n; i++ {
		if got[i] != want[i] {
			lo := i - 10
			if lo < 0 {
				lo = 0
			}
			hi := i + 10
			if hi > n {
				hi = n
			}
			return fmt.Sprintf("first difference at byte %d: got %q, want %q", i, got[lo:hi], want[lo:hi])
		}
	}
	return fmt.Sprintf("one is a prefix of the other (%d vs %d bytes)", len(got), len(want))
}

func sortedOutKeys(m map[string][]OutSpec) []string {
	ks := make([]string, 0, len(m))
	for k := range m {
		ks = append(ks, k)
	}
	sort.Strings(ks)
	return ks
}
