package sim

import "math/rand/v2"

// Tape is the only source of choice in a run. In search mode values are drawn
// lazily from a PCG generator seeded with the run's seed and recorded; in replay
// mode they are read back. Past the end of a replayed tape every value is 0,
// which by construction of the choice lists means "run what is runnable, then
// the next client operation, then let time pass" (DESIGN §2.2).
type Tape struct {
	Rec []uint32
	pos int
	rng *rand.Rand
}

func NewSearchTape(seed uint64) *Tape {
	return &Tape{rng: rand.New(rand.NewPCG(seed, 0x7461706531))}
}

func NewReplayTape(rec []uint32) *Tape {
	cp := make([]uint32, len(rec))
	copy(cp, rec)
	return &Tape{Rec: cp}
}

// Pick returns a value in [0,n). The reduced value is what gets recorded, so a
// replay file contains small, readable numbers.
func (t *Tape) Pick(n int) int {
	if n <= 1 {
		// still consume a slot so that tapes stay aligned when a choice list shrinks to one entry
		n = 1
	}
	var v uint32
	if t.pos < len(t.Rec) {
		v = t.Rec[t.pos] % uint32(n)
	} else if t.rng != nil {
		v = uint32(t.rng.IntN(n))
		t.Rec = append(t.Rec, v)
	} else {
		v = 0
	}
	t.pos++
	return int(v)
}

// Used returns the prefix of the tape consumed so far.
func (t *Tape) Used() []uint32 {
	n := t.pos
	if n > len(t.Rec) {
		n = len(t.Rec)
	}
	return t.Rec[:n]
}
