package sim

import (
	"crypto/sha256"
	"encoding/hex"
	"encoding/json"
	"fmt"
	"os"
	"strings"
	"testing"
	"testing/synctest"
)

// RunResult is everything a finished run reports.
type RunResult struct {
	Seed       uint64      `json:"seed"`
	Scenario   *Scenario   `json:"scenario"`
	Tape       []uint32    `json:"tape"`
	Choices    []string    `json:"choices,omitempty"`
	Violations []Violation `json:"violations,omitempty"`
	Hash       string      `json:"trace_hash"`
	Trace      []string    `json:"trace,omitempty"`
	Err        string      `json:"error,omitempty"`
	Stats      Stats       `json:"-"`
}

func (r *RunResult) Has(prop, rule string) bool {
	for _, v := range r.Violations {
		if v.Prop == prop && (rule == "" || v.Rule == rule) {
			return true
		}
	}
	return false
}

func (r *RunResult) First(prop string) *Violation {
	for i := range r.Violations {
		if r.Violations[i].Prop == prop {
			return &r.Violations[i]
		}
	}
	return nil
}

// RunOnce executes one scenario under one tape in a fresh bubble.
func RunOnce(t *testing.T, sc *Scenario, tape *Tape, keepTrace bool) *RunResult {
	return RunOnceLogged(t, sc, tape, keepTrace, "")
}

// RunOnceLogged is RunOnce with a crash log (see Run.CrashLog).
func RunOnceLogged(t *testing.T, sc *Scenario, tape *Tape, keepTrace bool, crashLog string) *RunResult {
	res := &RunResult{Scenario: sc}
	if sc.Late != nil {
		// real clock, real processes: not inside a bubble
		lr := &lateRun{sc: sc, ls: sc.Late, stats: Stats{Faults: map[string]int{}, Probes: map[string]int{}, AbstractSeen: map[string]bool{}}}
		lr.execute()
		res.Violations, res.Stats = lr.viol, lr.stats
		res.Hash = lateHash(sc, lr.viol)
		if keepTrace {
			res.Trace = lr.trace
		}
		res.Tape = []uint32{}
		return res
	}
	if sc.Proc != nil {
		// real clock, real processes: not inside a bubble
		pr := &procRun{sc: sc, ps: sc.Proc, stats: Stats{Faults: map[string]int{}, Probes: map[string]int{}, AbstractSeen: map[string]bool{}}}
		pr.execute()
		res.Violations, res.Stats = pr.viol, pr.stats
		res.Hash = procHash(sc, pr.viol)
		if keepTrace {
			res.Trace = pr.trace
		}
		res.Tape = []uint32{}
		return res
	}
	func() {
		defer func() {
			if r := recover(); r != nil {
				msg := fmt.Sprint(r)
				if strings.Contains(msg, "deadlock") && strings.Contains(msg, "bubble") {
					// goroutines of a torn-down world that can never finish (DESIGN §2.7); harmless, counted
					res.Stats.Leak = true
					return
				}
				panic(r)
			}
		}()
		synctest.Test(t, func(t *testing.T) {
			if sc.Store != nil {
				sr := &storeRun{sc: sc, ss: sc.Store, tape: tape, CrashLog: crashLog, stats: Stats{Faults: map[string]int{}, Probes: map[string]int{}, AbstractSeen: map[string]bool{}}}
				if err := sr.execute(); err != nil {
					res.Err = err.Error()
				}
				res.Violations, res.Stats, res.Choices = sr.viol, sr.stats, sr.choices
				h := sha256.Sum256([]byte(strings.Join(sr.trace, "\n")))
				res.Hash = hex.EncodeToString(h[:8])
				if keepTrace {
					res.Trace = sr.trace
				}
				return
			}
			if sc.Reload != nil {
				rr := &reloadRun{sc: sc, rs: sc.Reload, tape: tape, stats: Stats{Faults: map[string]int{}, Probes: map[string]int{}, AbstractSeen: map[string]bool{}}}
				if err := rr.execute(); err != nil {
					res.Err = err.Error()
				}
				res.Violations, res.Stats = rr.viol, rr.stats
				h := sha256.Sum256([]byte(strings.Join(rr.trace, "\n")))
				res.Hash = hex.EncodeToString(h[:8])
				if keepTrace {
					res.Trace = rr.trace
				}
				return
			}
			run := NewRun(sc, tape)
			run.CrashLog = crashLog
			if err := run.Execute(); err != nil {
				res.Err = err.Error()
			}
			res.Violations = run.viol
			res.Stats = run.stats
			res.Hash = run.TraceHash()
			res.Choices = run.choices
			if keepTrace {
				res.Trace = run.trace
			}
		})
	}()
	res.Tape = append([]uint32(nil), tape.Used()...)
	return res
}

// ReplayFile is the on-disk form of a (minimised) failing execution.
type ReplayFile struct {
	Property  string    `json:"property"`
	Rule      string    `json:"rule"`
	Message   string    `json:"message"`
	Seed      uint64    `json:"seed"`
	Engine    string    `json:"engine"`
	Scenario  *Scenario `json:"scenario"`
	Tape      []uint32  `json:"tape"`
	Choices   []string  `json:"choices"`
	TraceHash string    `json:"trace_hash"`
	Trace     []string  `json:"trace,omitempty"`
	Note      string    `json:"note,omitempty"`
	PanicSig  string    `json:"panic_signature,omitempty"`
}

func WriteReplay(path string, rf *ReplayFile) error {
	b, err := json.MarshalIndent(rf, "", " ")
	if err != nil {
		return err
	}
	return os.WriteFile(path, b, 0o644)
}

func ReadReplay(path string) (*ReplayFile, error) {
	b, err := os.ReadFile(path)
	if err != nil {
		return nil, err
	}
	var rf ReplayFile
	if err := json.Unmarshal(b, &rf); err != nil {
		return nil, err
	}
	return &rf, nil
}

func cloneScenario(sc *Scenario) *Scenario {
	b, _ := json.Marshal(sc)
	var c Scenario
	_ = json.Unmarshal(b, &c)
	return &c
}

// Minimise shrinks (scenario, tape) while the same rule of the same property
// still fails. Budget-bounded; every candidate is a complete fresh run.
func Minimise(t *testing.T, sc *Scenario, tape []uint32, prop, rule string, budget int) (*Scenario, []uint32, int) {
	return MinimiseWith(func(s *Scenario, tp []uint32) bool {
		r := RunOnce(t, s, NewReplayTape(tp), false)
		return r.Has(prop, rule)
	}, sc, tape, budget)
}

// MinimiseWith is the minimiser over an arbitrary "still fails the same way" predicate
// (in-process runs for ordinary violations, child processes for runs that end in a panic).
func MinimiseWith(fails func(*Scenario, []uint32) bool, sc *Scenario, tape []uint32, budget int) (*Scenario, []uint32, int) {
	runs := 0
	try := func(s *Scenario, tp []uint32) bool {
		if runs >= budget {
			return false
		}
		runs++
		return fails(s, tp)
	}
	best, bestTape := cloneScenario(sc), append([]uint32(nil), tape...)
	if !try(best, bestTape) {
		return best, bestTape, runs // does not reproduce from its own tape: caller treats as trouble
	}
	if best.Late != nil {
		// a late-writer scenario is five numbers; fewer bystanders is all there is to shrink
		for best.Late.Bystanders > 1 {
			cand := cloneScenario(best)
			cand.Late.Bystanders--
			if !try(cand, bestTape) {
				break
			}
			best = cand
		}
		return best, bestTape, runs
	}
	improved := true
	for improved && runs < budget {
		improved = false
		// --- scenario level
		for c := len(best.Clients) - 1; c >= 0 && len(best.Clients) > 1; c-- {
			cand := cloneScenario(best)
			cand.Clients = append(cand.Clients[:c], cand.Clients[c+1:]...)
			if try(cand, bestTape) {
				best, improved = cand, true
			}
		}
		for c := 0; c < len(best.Clients); c++ {
			for i := len(best.Clients[c]) - 1; i >= 0; i-- {
				cand := cloneScenario(best)
				cand.Clients[c] = append(cand.Clients[c][:i], cand.Clients[c][i+1:]...)
				if try(cand, bestTape) {
					best, improved = cand, true
				}
			}
		}
		for d := range best.Defs {
			for p := len(best.Defs[d].Pipelines) - 1; p >= 0 && len(best.Defs[d].Pipelines) > 1; p-- {
				cand := cloneScenario(best)
				cand.Defs[d].Pipelines = append(cand.Defs[d].Pipelines[:p], cand.Defs[d].Pipelines[p+1:]...)
				if try(cand, bestTape) {
					best, improved = cand, true
				}
			}
			for p := range best.Defs[d].Pipelines {
				for ti := len(best.Defs[d].Pipelines[p].Tasks) - 1; ti >= 0 && len(best.Defs[d].Pipelines[p].Tasks) > 1; ti-- {
					cand := cloneScenario(best)
					pp := &cand.Defs[d].Pipelines[p]
					name := pp.Tasks[ti].Name
					pp.Tasks = append(pp.Tasks[:ti], pp.Tasks[ti+1:]...)
					for k := range pp.Tasks {
						var nd []string
						for _, dep := range pp.Tasks[k].DependsOn {
							if dep != name {
								nd = append(nd, dep)
							}
						}
						pp.Tasks[k].DependsOn = nd
					}
					if try(cand, bestTape) {
						best, improved = cand, true
					}
				}
			}
		}
		if best.Store != nil {
			for sv := len(best.Store.Savers) - 1; sv >= 0; sv-- {
				if len(best.Store.Savers) > 1 {
					cand := cloneScenario(best)
					cand.Store.Savers = append(cand.Store.Savers[:sv], cand.Store.Savers[sv+1:]...)
					if try(cand, bestTape) {
						best, improved = cand, true
						continue
					}
				}
				for i := len(best.Store.Savers[sv]) - 1; i >= 0; i-- {
					cand := cloneScenario(best)
					cand.Store.Savers[sv] = append(cand.Store.Savers[sv][:i], cand.Store.Savers[sv][i+1:]...)
					if try(cand, bestTape) {
						best, improved = cand, true
					}
				}
			}
			for best.Store.Loaders > 0 {
				cand := cloneScenario(best)
				cand.Store.Loaders--
				if !try(cand, bestTape) {
					break
				}
				best, improved = cand, true
			}
			for sv := range best.Store.Savers {
				for i := range best.Store.Savers[sv] {
					if best.Store.Savers[sv][i].Pad > 0 || best.Store.Savers[sv][i].Jobs > 1 {
						cand := cloneScenario(best)
						cand.Store.Savers[sv][i].Pad = 0
						cand.Store.Savers[sv][i].Jobs = 1
						if try(cand, bestTape) {
							best, improved = cand, true
						}
					}
				}
			}
		}
		if best.Proc != nil {
			for i := len(best.Proc.Jobs) - 1; i >= 0 && len(best.Proc.Jobs) > 1; i-- {
				cand := cloneScenario(best)
				cand.Proc.Jobs = append(cand.Proc.Jobs[:i], cand.Proc.Jobs[i+1:]...)
				if try(cand, bestTape) {
					best, improved = cand, true
				}
			}
			if best.Proc.ForcedShutdown {
				cand := cloneScenario(best)
				cand.Proc.ForcedShutdown = false
				for i := range cand.Proc.Jobs {
					cand.Proc.Jobs[i].Cancel = true
				}
				if try(cand, bestTape) {
					best, improved = cand, true
				}
			}
		}
		if best.Reload != nil {
			for best.Reload.Edits > 1 {
				cand := cloneScenario(best)
				cand.Reload.Edits--
				if !try(cand, bestTape) {
					break
				}
				best, improved = cand, true
			}
			for _, f := range []func(*ReloadScenario) bool{
				func(r *ReloadScenario) bool { ch := r.PInval != 0; r.PInval = 0; return ch },
				func(r *ReloadScenario) bool { ch := r.PTorn != 0; r.PTorn = 0; return ch },
				func(r *ReloadScenario) bool { ch := r.Files > 1; r.Files = 1; return ch },
				func(r *ReloadScenario) bool { ch := r.Pipes > 1; r.Pipes = 1; return ch },
				func(r *ReloadScenario) bool { ch := r.Direct != 0; r.Direct = 0; return ch },
			} {
				cand := cloneScenario(best)
				if f(cand.Reload) && try(cand, bestTape) {
					best, improved = cand, true
				}
			}
		}
		if len(best.Fates) > 0 {
			for i := len(best.Fates) - 1; i >= 0; i-- {
				cand := cloneScenario(best)
				cand.Fates = append(cand.Fates[:i], cand.Fates[i+1:]...)
				if try(cand, bestTape) {
					best, improved = cand, true
				}
			}
		}
		for _, f := range []func(*RunConfig) bool{
			func(c *RunConfig) bool { ch := c.PFail != 0; c.PFail = 0; return ch },
			func(c *RunConfig) bool { ch := c.PExit0 != 0; c.PExit0 = 0; return ch },
			func(c *RunConfig) bool { ch := c.PUUIDErr != 0; c.PUUIDErr = 0; return ch },
			func(c *RunConfig) bool { ch := c.PSaveErr != 0; c.PSaveErr = 0; return ch },
			func(c *RunConfig) bool { ch := c.PIOErr != 0; c.PIOErr = 0; return ch },
			func(c *RunConfig) bool { ch := c.WSettle != 0; c.WSettle = 0; return ch },
			func(c *RunConfig) bool { ch := c.WCrash != 0; c.WCrash = 0; return ch },
		} {
			cand := cloneScenario(best)
			if f(&cand.Cfg) && try(cand, bestTape) {
				best, improved = cand, true
			}
		}
		// --- tape level: chunk deletion, then zeroing
		for chunk := len(bestTape) / 2; chunk >= 1 && runs < budget; chunk /= 2 {
			for start := 0; start+chunk <= len(bestTape) && runs < budget; {
				cand := append(append([]uint32(nil), bestTape[:start]...), bestTape[start+chunk:]...)
				if try(best, cand) {
					bestTape, improved = cand, true
				} else {
					start += chunk
				}
			}
		}
		for i := 0; i < len(bestTape) && runs < budget; i++ {
			if bestTape[i] == 0 {
				continue
			}
			cand := append([]uint32(nil), bestTape...)
			cand[i] = 0
			if try(best, cand) {
				bestTape, improved = cand, true
			}
		}
		// drop trailing zeros: past the end of the tape every value is 0 anyway
		for len(bestTape) > 0 && bestTape[len(bestTape)-1] == 0 {
			bestTape = bestTape[:len(bestTape)-1]
		}
	}
	return best, bestTape, runs
}
