package sim

import (
	"crypto/sha256"
	"encoding/hex"
	"encoding/json"
	"fmt"
	"os"
	"path/filepath"
	"reflect"
	"sort"
	"strings"
	"time"

	"github.com/Flowpack/prunner/store"
)

// Oracles that involve the job store, the log store, shutdown and restart:
// C10, C11, C12 (DESIGN §5).

func timeEq(a, b *time.Time) bool {
	if a == nil || b == nil {
		return a == b
	}
	return a.Equal(*b)
}

// diffPersisted compares one persisted job with the API report of the same job.
func diffPersisted(p *store.PersistedJob, j *JobSnap) string {
	switch {
	case p.Pipeline != j.Pipeline:
		return "pipeline"
	case p.Completed != j.Completed:
		return fmt.Sprintf("completed (store %v, reported %v)", p.Completed, j.Completed)
	case p.Canceled != j.Canceled:
		return fmt.Sprintf("canceled (store %v, reported %v)", p.Canceled, j.Canceled)
	case !p.Created.Equal(j.Created):
		return "created"
	case !timeEq(p.Start, j.Start):
		return "start"
	case !timeEq(p.End, j.End):
		return "end"
	case p.User != j.User:
		return "user"
	case !varsEqual(p.Variables, j.Variables):
		return fmt.Sprintf("variables (store %v, reported %v)", p.Variables, j.Variables)
	case len(p.Tasks) != len(j.Tasks):
		return "number of tasks"
	}
	for i, pt := range p.Tasks {
		jt := j.Tasks[i]
		perr := ""
		if pt.Error != nil {
			perr = *pt.Error
		}
		switch {
		case pt.Name != jt.Name:
			return "task name"
		case pt.Status != jt.Status:
			return fmt.Sprintf("status of task %s (store %q, reported %q)", pt.Name, pt.Status, jt.Status)
		case !timeEq(pt.Start, jt.Start) || !timeEq(pt.End, jt.End):
			return "times of task " + pt.Name
		case pt.Skipped != jt.Skipped || pt.ExitCode != jt.ExitCode || pt.Errored != jt.Errored:
			return "result of task " + pt.Name
		case perr != jt.Error:
			return "error of task " + pt.Name
		}
	}
	return ""
}

func varsEqual(a, b map[string]interface{}) bool {
	if len(a) == 0 && len(b) == 0 {
		return true
	}
	return reflect.DeepEqual(a, b)
}

// diffReports compares two API reports of the same job on everything the
// statement of C10 lists.
func diffReports(before, after *JobSnap) string {
	switch {
	case before.Pipeline != after.Pipeline:
		return "pipeline"
	case before.Completed != after.Completed:
		return fmt.Sprintf("completed (before %v, after %v)", before.Completed, after.Completed)
	case before.Canceled != after.Canceled:
		return fmt.Sprintf("canceled (before %v, after %v)", before.Canceled, after.Canceled)
	case !before.Created.Equal(after.Created):
		return "created"
	case !timeEq(before.Start, after.Start):
		return "start"
	case !timeEq(before.End, after.End):
		return "end"
	case before.User != after.User:
		return "user"
	case !varsEqual(before.Variables, after.Variables):
		return fmt.Sprintf("variables (before %#v, after %#v)", before.Variables, after.Variables)
	case before.HasError != after.HasError || before.LastError != after.LastError:
		return fmt.Sprintf("last error (before %q, after %q)", before.LastError, after.LastError)
	case len(before.Tasks) != len(after.Tasks):
		return "number of tasks"
	}
	for i, bt := range before.Tasks {
		at := after.Tasks[i]
		switch {
		case bt.Name != at.Name:
			return "task order / names"
		case bt.Status != at.Status:
			return fmt.Sprintf("status of task %s (before %q, after %q)", bt.Name, bt.Status, at.Status)
		case !timeEq(bt.Start, at.Start) || !timeEq(bt.End, at.End):
			return "times of task " + bt.Name
		case bt.Skipped != at.Skipped || bt.ExitCode != at.ExitCode || bt.Errored != at.Errored:
			return "result of task " + bt.Name
		case bt.HasError != at.HasError || bt.Error != at.Error:
			return fmt.Sprintf("error of task %s (before %q, after %q)", bt.Name, bt.Error, at.Error)
		case !reflect.DeepEqual(nz(bt.DependsOn), nz(at.DependsOn)) || !reflect.DeepEqual(nz(bt.Script), nz(at.Script)) || bt.AllowFailure != at.AllowFailure:
			return "definition of task " + bt.Name
		}
	}
	return ""
}

func nz(s []string) []string {
	if len(s) == 0 {
		return nil
	}
	return s
}

// diffStore compares a saved snapshot with an API snapshot: same job set, each job equal.
func diffStore(pd *store.PersistedData, s *Snap) string {
	if pd == nil {
		if len(s.Jobs) == 0 {
			return ""
		}
		return fmt.Sprintf("nothing was ever saved but %d jobs are reported", len(s.Jobs))
	}
	seen := map[string]bool{}
	for i := range pd.Jobs {
		p := &pd.Jobs[i]
		name := jobName(p.ID)
		if seen[name] {
			return "job " + name + " is stored twice"
		}
		seen[name] = true
		j := s.Jobs[name]
		if j == nil {
			return "stored job " + name + " is not reported"
		}
		if d := diffPersisted(p, j); d != "" {
			return "job " + name + ": " + d
		}
	}
	for name := range s.Jobs {
		if !seen[name] {
			return "reported job " + name + " is not in the store"
		}
	}
	return ""
}

// ---------------------------------------------------------------------------
// C12: every SaveToStore step (removal phase + snapshot)

func (m *monState) checkSaveStep(si *StepInfo, pre, post *Snap, evs []Event) {
	run := m.run
	w := run.cur
	call := run.saving[si.Gid]
	// ---- what this step of the save removed
	removed := map[string]*JobSnap{}
	for name, j := range pre.Jobs {
		if post.Jobs[name] == nil {
			removed[name] = j
		}
	}
	for name := range post.Jobs {
		if pre.Jobs[name] == nil {
			run.violate("C12", "r0", "step %d: a save added job %s", si.N, name)
		}
	}
	if len(removed) > 0 {
		run.probe("retention_removed_jobs")
	}
	for name := range removed {
		m.goneBySave[name] = si.N
	}
	// jobs that stay must not change
	for name, j := range post.Jobs {
		if pj := pre.Jobs[name]; pj != nil && pj.digest() != j.digest() {
			run.violate("C12", "r0", "step %d: a save changed job %s", si.N, name)
		}
	}
	byPipe := map[string][]*JobSnap{}
	for _, j := range pre.Jobs {
		byPipe[j.Pipeline] = append(byPipe[j.Pipeline], j)
	}
	for pname, jobs := range byPipe {
		def := w.defs.pipe(pname)
		if def == nil {
			if len(removed) > 0 {
				run.probe("purge_undefined_pipeline")
			}
			continue
		}
		for _, j := range jobs {
			if removed[j.Name] == nil {
				continue
			}
			// r1, r4: only finished jobs go, and only under retention settings
			if !j.Terminal() {
				run.violate("C12", "r1", "step %d: save removed job %s of defined pipeline %s, which is %s", si.N, j.Name, pname, brief(j))
				if j.Waiting() {
					run.violate("C03", "r3", "step %d: accepted job %s of pipeline %s was waiting and has vanished (removed by a save): it can neither start nor be reported canceled any more", si.N, j.Name, pname)
				}
			}
			if def.RetCount == 0 && def.RetPeriodMs == 0 {
				run.violate("C12", "r4", "step %d: pipeline %s has no retention settings but a save removed job %s", si.N, pname, j.Name)
			}
			// r3: a finished job is kept only if every newer finished job is kept
			for _, k := range jobs {
				if removed[k.Name] == nil && k.Terminal() && j.Terminal() && j.Created.After(k.Created) {
					run.violate("C12", "r3", "step %d: finished job %s (created %v) was removed while the older finished job %s (created %v) was kept", si.N, j.Name, j.Created.Sub(run.t0), k.Name, k.Created.Sub(run.t0))
				}
			}
		}
	}
	// ---- the step in which this call handed its snapshot to the store
	if w.mem != nil {
		if n, _ := w.mem.counts(); n > 0 && w.mem.handed[n-1].Step == si.N {
			h := w.mem.handed[n-1]
			// r6: the snapshot is what the API reported at one instant of the call (today: this one)
			match := post
			if d := diffStore(h.Data, post); d != "" {
				match = nil
				if call != nil {
					for st := si.N - 1; st >= call.begin-1 && st > si.N-len(m.snapRing) && st >= 0; st-- {
						if sn := m.snapRing[st%len(m.snapRing)]; sn != nil && diffStore(h.Data, sn) == "" {
							match = sn
							break
						}
					}
				}
				if match == nil {
					run.violate("C12", "r6", "step %d: the snapshot handed to the store differs from what the API reports at the same instant (and at every instant since the save began): %s", si.N, d)
				}
			}
			if match != nil {
				m.snapAtSave[n-1] = match
			}
			if call != nil {
				call.handed = n - 1
			}
			// r2, r5: retention has been applied. Judged on the jobs that were finished when the call began (what
			// finished while it ran may have come after its removal phase) and that the snapshot still contains.
			if call != nil && call.atBegin != nil && m.lastReload < call.begin {
				m.checkRetentionApplied(si, call, h.Data)
			}
			run.probe("save_handed_over")
		}
	}
	// ---- r7: logs of removed jobs are gone, logs of kept jobs untouched
	for _, e := range evs {
		if e.Kind == "log-remove-failed" {
			m.removeFailed[e.Job] = true
			run.fault("log_remove_error")
		}
	}
	if run.logsBefore != nil {
		after := run.listLogs(w)
		for path, sum := range run.logsBefore {
			job := strings.SplitN(path, "/", 2)[0]
			name := job
			if id, err := uuidFromString(job); err == nil {
				name = jobName(id)
			}
			_, still := after[path]
			_, goneEarlier := m.goneBySave[name] // (jobs restored from the store after a restart included)
			if removed[name] != nil || goneEarlier {
				if still && removed[name] != nil && m.logsPending[name] == nil {
					// not yet: the call may remove the files later, but before it is over
					m.logsPending[name] = &pendingLogs{gid: si.Gid, step: si.N, path: path}
				}
			} else if !still || after[path] != sum {
				run.violate("C12", "r7", "step %d: log file %s of kept job %s was removed or changed by a save", si.N, path, name)
			}
		}
		if len(removed) > 0 && len(run.logsBefore) > 0 {
			run.probe("retention_with_logs")
		}
		run.logsBefore = nil
	}
}

// pendingLogs: log files of a job that a save removed from the runner but that were still on disk in that step.
type pendingLogs struct {
	gid  uint64
	step int
	path string
}

// checkPendingLogRemovals: "after every save the logs of every removed job are gone". The verdict falls when the
// goroutine that removed the job has left SaveToStore (or at the end of the run).
func (m *monState) checkPendingLogRemovals(si *StepInfo, atEnd bool) {
	if len(m.logsPending) == 0 {
		return
	}
	run := m.run
	w := run.cur
	if w == nil || w.isDead() {
		m.logsPending = map[string]*pendingLogs{}
	m.saveOps = nil
	m.listOps, m.listStart = nil, nil
		return
	}
	var after map[string]string
	for _, name := range sortedNameSetP(m.logsPending) {
		p := m.logsPending[name]
		if !atEnd && run.saving[p.gid] != nil {
			continue // still inside the call
		}
		if after == nil {
			after = run.listLogs(w)
		}
		delete(m.logsPending, name)
		if _, still := after[p.path]; still && !m.removeFailed[name] {
			step := run.step
			if si != nil {
				step = si.N
			}
			run.violate("C12", "r7", "step %d: job %s was removed by a save at step %d, the save is over, but its log file %s is still there", step, name, p.step, p.path)
		}
	}
}

func sortedNameSetP(m map[string]*pendingLogs) []string {
	var ks []string
	for k := range m {
		ks = append(ks, k)
	}
	sort.Strings(ks)
	return ks
}

// checkRetentionApplied: r2 and r5 on the snapshot a save handed to the store.
func (m *monState) checkRetentionApplied(si *StepInfo, call *saveCall, pd *store.PersistedData) {
	run := m.run
	w := run.cur
	inSnap := map[string]bool{}
	for _, n := range sortedPersisted(pd) {
		inSnap[n] = true
	}
	byPipe := map[string][]*JobSnap{}
	for name, j := range call.atBegin.Jobs {
		if j.Terminal() && inSnap[name] {
			byPipe[j.Pipeline] = append(byPipe[j.Pipeline], j)
		}
	}
	for pname, kept := range byPipe {
		def := w.defs.pipe(pname)
		if def == nil {
			sort.Slice(kept, func(a, b int) bool { return kept[a].Name < kept[b].Name })
			run.violate("C12", "r5", "step %d: finished job %s of pipeline %s, which is no longer defined, survived a save (it was finished before the save began at step %d)", si.N, kept[0].Name, pname, call.begin)
			continue
		}
		if def.RetCount > 0 && len(kept) > def.RetCount {
			run.violate("C12", "r2", "step %d: %d jobs of pipeline %s that were finished before the save began (step %d) remain after it, retention_count is %d", si.N, len(kept), pname, call.begin, def.RetCount)
		}
		period := time.Duration(def.RetPeriodMs) * time.Millisecond
		for _, k := range kept {
			if age := run.t0.Add(call.atBegin.At).Sub(k.Created); period > 0 && age > period {
				run.violate("C12", "r2", "step %d: finished job %s of pipeline %s was %v old when the save began and survived it, retention_period is %v", si.N, k.Name, pname, age, period)
			}
		}
	}
}

// C12 r6c: an explicit SaveToStore call that ran alone. "After every save the set of
// jobs reported by the API equals the set in the store" must also hold for a call
// that decides to write nothing (a changed version may skip "unchanged" saves): the
// comparison is made when the call returns, if no other save overlapped it and no
// job was accepted while it ran (then the set it saw is the set reported now).
type saveOpInfo struct {
	step              int
	handed, completed int
	names             map[string]bool
}

func (m *monState) onSaveOpStart(client int) {
	run := m.run
	w := run.cur
	delete(m.saveOps, client) // whatever an earlier call of this client left behind (it may have been lost in a crash)
	if w == nil || w.isDead() || w.mem == nil || run.pre == nil {
		return
	}
	h, c := w.mem.counts()
	if run.otherSaveActive(0) {
		return // another save is under way
	}
	info := &saveOpInfo{step: run.step, handed: h, completed: c, names: map[string]bool{}}
	for n := range run.pre.Jobs {
		info.names[n] = true
	}
	if m.saveOps == nil {
		m.saveOps = map[int]*saveOpInfo{}
	}
	m.saveOps[client] = info
}

func (m *monState) checkSaveReturn(si *StepInfo, res *OpResult, post *Snap) {
	run := m.run
	w := run.cur
	info := m.saveOps[res.Client]
	delete(m.saveOps, res.Client)
	if info == nil || w == nil || w.isDead() || w.mem == nil || w.shutdownBegun > 0 {
		return
	}
	h, c := w.mem.counts()
	if info.handed != info.completed || h != c || h-info.handed > 1 || run.otherSaveActive(run.clients[res.Client].goid) {
		return // another save was in flight (or still is), or a save failed
	}
	for n := range post.Jobs {
		if !info.names[n] {
			return // a job was accepted while the call ran
		}
	}
	stored := map[string]bool{}
	if pd := w.mem.last(); pd != nil {
		for _, n := range sortedPersisted(pd) {
			stored[n] = true
		}
	}
	for _, n := range post.sortedNames() {
		if !stored[n] {
			run.violate("C12", "r6c", "step %d: SaveToStore (called at step %d, no other save in between) has returned, job %s is reported by the API but is not in the store", si.N, info.step, n)
			return
		}
	}
	for n := range stored {
		if post.Jobs[n] == nil {
			run.violate("C12", "r6c", "step %d: SaveToStore (called at step %d, no other save in between) has returned, job %s is in the store but not reported by the API", si.N, info.step, n)
			return
		}
	}
	run.probe("explicit_save_alone_checked")
}

// listLogs returns path (relative to the log directory) -> content hash.
func (run *Run) listLogs(w *World) map[string]string {
	res := map[string]string{}
	if w.dir == "" {
		return res
	}
	root := filepath.Join(w.dir, "logs")
	_ = filepath.Walk(root, func(p string, info os.FileInfo, err error) error {
		if err != nil || info.IsDir() {
			return nil
		}
		b, _ := os.ReadFile(p)
		h := sha256.Sum256(b)
		rel, _ := filepath.Rel(root, p)
		res[rel] = hex.EncodeToString(h[:8])
		return nil
	})
	return res
}

// checkSavedDataStable (C12 r6b): what a save finally wrote must still be the snapshot that
// was built for it — the data must not change while the save is in progress.
func (m *monState) checkSavedDataStable(si *StepInfo) {
	w := m.run.cur
	if w == nil || w.mem == nil {
		return
	}
	_, completed := w.mem.counts()
	for ; m.stableChecked < completed; m.stableChecked++ {
		idx := w.mem.completed[m.stableChecked]
		snap := m.snapAtSave[idx]
		if snap == nil {
			continue
		}
		if d := diffStore(w.mem.handed[idx].Data, snap); d != "" {
			m.run.violate("C12", "r6b", "step %d: a save that was handed its snapshot at step %d completed, but the data it wrote is not that snapshot any more: %s", si.N, w.mem.handed[idx].Step, d)
		}
	}
}

// ---------------------------------------------------------------------------
// C11: the step in which Shutdown returns

func (m *monState) checkShutdownReturn(si *StepInfo, res *OpResult, pre, post *Snap) {
	run := m.run
	w := run.cur
	if w.shutdownReturned != 0 {
		run.probe("second_shutdown_returned")
	}
	w.shutdownReturned = si.N
	forced := res.Err == "deadline" || res.Err == "ctxcanceled"
	if forced {
		run.probe("shutdown_forced_returned")
	} else {
		run.probe("shutdown_graceful_returned")
	}
	// r1 / r4
	for _, name := range post.sortedNames() {
		j := post.Jobs[name]
		if !j.Terminal() {
			run.violate("C11", "r1", "step %d: Shutdown returned but job %s is %s", si.N, name, brief(j))
		}
	}
	for job, evs := range m.evByJob {
		if m.worldOfJob[job] != w.id {
			continue
		}
		open := map[string]bool{}
		for _, e := range evs {
			switch e.Kind {
			case "run-enter":
				open[e.Task] = true
			case "run-exit":
				delete(open, e.Task)
			}
		}
		if len(open) > 0 {
			run.violate("C11", "r1", "step %d: Shutdown returned while a task of job %s is still executing", si.N, job)
		}
	}
	// r2: the store holds exactly the final reported state
	lastSaveFailed := false
	if w.mem != nil {
		if n, _ := w.mem.counts(); n > 0 && !w.mem.handed[n-1].OK {
			lastSaveFailed = true // an injected store error hit the final save: the store legitimately lags behind
		}
	}
	if w.mem != nil && !lastSaveFailed {
		if d := diffStore(w.mem.last(), post); d != "" {
			// Which history is it? If the snapshot written last was built before another one that was written earlier,
			// two saves overlapped and completed in inverted order (rule r2i, its own rule so that the known finding
			// F12 cannot hide any other difference between store and reported state).
			lastIx, newer := w.mem.completed[len(w.mem.completed)-1], -1
			for _, k := range w.mem.completed {
				if k > lastIx {
					newer = k
				}
			}
			if newer >= 0 && diffStore(w.mem.handed[newer].Data, post) == "" {
				run.violate("C11", "r2i", "step %d: Shutdown returned but the store holds an older snapshot than the reported state: two saves overlapped and completed in inverted order (snapshot #%d, built at step %d, was written after snapshot #%d, built at step %d, which matches the reported state, and the state changed in between): %s", si.N, lastIx, w.mem.handed[lastIx].Step, newer, w.mem.handed[newer].Step, d)
			} else {
				run.violate("C11", "r2", "step %d: Shutdown returned but the last successfully saved snapshot differs from the reported state: %s", si.N, d)
			}
		}
	}
	// r5 / r6
	for name := range m.shutdownJobsRunningAtBegin {
		j := post.Jobs[name]
		if j == nil {
			continue
		}
		explicit := false
		for _, c := range m.cancels {
			if c.Job == name {
				explicit = true
			}
		}
		_, failed := m.firstFail[name]
		if m.forcedCancel[name] {
			if !j.Canceled {
				run.violate("C11", "r6", "step %d: forced shutdown: job %s was running when the deadline passed but ends as %s", si.N, name, brief(j))
			}
			continue
		}
		if explicit || failed {
			continue
		}
		if len(m.events(name, "cancel-delivered")) > 0 {
			run.violate("C11", "r5", "step %d: graceful shutdown told the tasks of running job %s to stop", si.N, name)
		}
		a := m.acc[name]
		if a != nil && !a.BadGraph && !(j.Completed && !j.Canceled) {
			run.violate("C11", "r5", "step %d: graceful shutdown: job %s was running when shutdown began and ends as %s instead of completing", si.N, name, brief(j))
		}
	}
}

// ---------------------------------------------------------------------------
// C11 r7: persist liveness, evaluated in settled states after two persist pauses

func (m *monState) checkPersistLiveness() {
	run := m.run
	w := run.cur
	if w == nil || w.isDead() || w.mem == nil || w.shutdownBegun > 0 || w.signalled || run.sc.Cfg.PSaveErr > 0 {
		return
	}
	handed, completed := w.mem.counts()
	if handed != completed {
		return // a save is in flight (parked by the schedule): not a settled store
	}
	s := run.pre
	if d := diffStore(w.mem.last(), s); d != "" {
		run.violate("C11", "r7", "settled state at step %d, %v after the last acknowledged change and with the runner alive: the store still differs from the reported state: %s", run.step, s.At-m.lastChangeAt, d)
	}
	run.probe("persist_liveness_checked")
}

// ---------------------------------------------------------------------------
// C10: restart

func (m *monState) onRestart(nw, old *World) {
	run := m.run
	s := run.snapshot(nw)
	run.probe("restart")
	loaded, err := nw.store.Load()
	if err != nil {
		run.violate("C10", "r0", "the persisted state cannot be loaded after the crash: %v", err)
		return
	}
	// r1
	for _, name := range s.sortedNames() {
		j := s.Jobs[name]
		if !j.Terminal() {
			run.violate("C10", "r1", "after restart job %s is reported %s", name, brief(j))
		}
	}
	// r2
	for _, p := range nw.defs.Pipelines {
		pi := s.pipeInfo(p.Name)
		if pi == nil || pi.Running || !pi.Schedulable {
			run.violate("C10", "r2", "after restart pipeline %s is listed %+v, want schedulable and not running", p.Name, pi)
		}
	}
	// r3
	if len(s.Dup) > 0 {
		run.violate("C10", "r3", "after restart jobs %v are reported twice", s.Dup)
	}
	inSnap := map[string]*store.PersistedJob{}
	for i := range loaded.Jobs {
		inSnap[jobName(loaded.Jobs[i].ID)] = &loaded.Jobs[i]
	}
	for name := range inSnap {
		if s.Jobs[name] == nil {
			run.violate("C10", "r3", "job %s is in the persisted snapshot but not reported after restart", name)
		}
	}
	for name := range s.Jobs {
		if inSnap[name] == nil {
			run.violate("C10", "r3", "job %s is reported after restart but is not in the persisted snapshot", name)
		}
	}
	// r5: the persisted state is one complete snapshot the old world built (job set and content)
	if len(m.snapAtSave) > 0 {
		match := canonPersisted(loaded) == m.initialLoaded // nothing newer than what the old world itself started from
		first := ""
		for _, snap := range m.snapAtSave {
			d := diffStore(loaded, snap)
			if d == "" {
				match = true
				break
			}
			if first == "" {
				first = d
			}
		}
		if !match {
			run.violate("C10", "r5", "the persisted state loaded after the restart is none of the %d snapshots the runner built before the crash (e.g. %s)", len(m.snapAtSave), first)
		}
	}
	// r4: every job that was finished in the snapshot is reported as the old world reported it
	n := 0
	for name, p := range inSnap {
		if !(p.Completed || p.Canceled) {
			continue
		}
		before := m.lastSeen[name]
		after := s.Jobs[name]
		if before == nil || after == nil || !before.Terminal() {
			continue
		}
		n++
		if d := diffReports(before, after); d != "" {
			run.violate("C10", "r4", "job %s was finished before the restart and is reported differently afterwards: %s", name, d)
		}
	}
	if n > 0 {
		run.probe("restart_with_finished_jobs")
	}
	if len(loaded.Jobs) > n {
		run.probe("restart_with_unfinished_jobs")
	}
	for name, j := range s.Jobs {
		m.lastSeen[name] = j
	}
	m.shutdownJobsRunningAtBegin = nil
	m.forcedCancel = map[string]bool{}
	m.snapAtSave = map[int]*Snap{}
	m.logsPending = map[string]*pendingLogs{}
	m.liveExec = map[string]int{} // the executions of the dead process died with it
	m.initialLoaded = canonPersisted(loaded)
	m.stableChecked = 0
	m.lastChangeAt = s.At
}

func sortedPersisted(pd *store.PersistedData) []string {
	var names []string
	for _, j := range pd.Jobs {
		names = append(names, jobName(j.ID))
	}
	sort.Strings(names)
	return names
}


// canonPersisted: order-independent rendering of a persisted snapshot.
func canonPersisted(pd *store.PersistedData) string {
	if pd == nil {
		return "[]"
	}
	var items []string
	for i := range pd.Jobs {
		b, _ := json.Marshal(pd.Jobs[i])
		items = append(items, string(b))
	}
	sort.Strings(items)
	return "[" + strings.Join(items, ",") + "]"
}
