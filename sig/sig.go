// Package sig turns what a dying or race-reporting Go process prints on stderr
// into stable signatures (no addresses, goroutine numbers or line numbers), so
// that "the same failure" can be recognised across processes and replays.
package sig

import (
	"regexp"
	"sort"
	"strings"
)

var frameRe = regexp.MustCompile(`(?m)^(github\.com/Flowpack/prunner[^\s(]*)`)
var addrRe = regexp.MustCompile(`0x[0-9a-f]+`)

// Panic: "<first line of the panic> @ <first frames in prunner code>", "" if there is none.
func Panic(stderr string) string {
	idx := strings.Index(stderr, "panic: ")
	if i := strings.Index(stderr, "fatal error: "); i >= 0 && (idx < 0 || i < idx) {
		idx = i
	}
	if idx < 0 {
		return ""
	}
	rest := stderr[idx:]
	first := rest
	if i := strings.Index(rest, "\n"); i >= 0 {
		first = rest[:i]
	}
	first = addrRe.ReplaceAllString(first, "0x?")
	frames := frameRe.FindAllString(rest, 3)
	return first + " @ " + strings.Join(frames, " < ")
}

// RaceReport is one "WARNING: DATA RACE" block.
type RaceReport struct {
	Sig       string // "" for reports that do not involve prunner code
	WaitGroup bool   // the detector's synthetic "WaitGroup.Add concurrent with Wait" annotation
	Text      string
}

var accessRe = regexp.MustCompile(`^(Previous )?([Ww]rite|[Rr]ead|[Aa]tomic [a-z]+) at 0x[0-9a-f]+ by `)

// Races parses all race reports in stderr.
func Races(stderr string) []RaceReport {
	var res []RaceReport
	blocks := strings.Split(stderr, "==================")
	for _, b := range blocks {
		if !strings.Contains(b, "WARNING: DATA RACE") {
			continue
		}
		lines := strings.Split(b, "\n")
		type access struct {
			kind   string
			frames []string
		}
		var accs []access
		cur := -1
		for _, l := range lines {
			if m := accessRe.FindStringSubmatch(l); m != nil {
				k := strings.ToLower(m[2])
				if strings.HasPrefix(k, "atomic") {
					k = "atomic"
				}
				accs = append(accs, access{kind: k})
				cur = len(accs) - 1
				continue
			}
			if strings.HasPrefix(l, "Goroutine ") || strings.TrimSpace(l) == "" {
				cur = -1
				continue
			}
			if cur >= 0 && strings.HasPrefix(l, "  ") && !strings.HasPrefix(l, "      ") {
				fn := strings.TrimSpace(l)
				if i := strings.LastIndex(fn, "("); i > 0 {
					fn = fn[:i]
				}
				accs[cur].frames = append(accs[cur].frames, fn)
			}
		}
		rep := RaceReport{Text: strings.TrimSpace(b)}
		var parts []string
		involves := false
		for _, a := range accs {
			top, own := "", ""
			if len(a.frames) > 0 {
				top = a.frames[0]
			}
			// an explicit runtime.raceread/racewrite call is not a memory access of the program but a synthetic
			// annotation made by a sync primitive (WaitGroup: "Add called concurrently with Wait")
			if top == "runtime.raceread" || top == "runtime.racewrite" {
				rep.WaitGroup = true
			}
			// the innermost frame that is not the runtime's: who made the access
			for _, f := range a.frames {
				if strings.HasPrefix(f, "runtime.") || strings.HasPrefix(f, "internal/") {
					continue
				}
				own = f
				if strings.HasPrefix(f, "github.com/Flowpack/prunner") && !strings.Contains(f, "/verifhook") {
					involves = true
				}
				break
			}
			parts = append(parts, a.kind+" "+top+" < "+own)
		}
		if involves && !rep.WaitGroup && len(parts) == 2 {
			sort.Strings(parts)
			rep.Sig = "DATA RACE: " + parts[0] + " || " + parts[1]
		}
		res = append(res, rep)
	}
	return res
}

// Any: the signature of the first fatal thing in stderr: a panic / fatal error,
// else the first race report that involves prunner code.
func Any(stderr string) string {
	if p := Panic(stderr); p != "" {
		return p
	}
	for _, r := range Races(stderr) {
		if r.Sig != "" {
			return r.Sig
		}
	}
	return ""
}


// All: every signature found in stderr (a panic / fatal error first, then every
// race report that involves prunner code, without duplicates).
func All(stderr string) []string {
	var res []string
	seen := map[string]bool{}
	if p := Panic(stderr); p != "" {
		res = append(res, p)
		seen[p] = true
	}
	for _, r := range Races(stderr) {
		if r.Sig != "" && !seen[r.Sig] {
			seen[r.Sig] = true
			res = append(res, r.Sig)
		}
	}
	return res
}
