// storehelper is the process that engine B2 (DESIGN §5 C09) runs under strace:
// it uses nothing but the real store.JsonDataStore of /repo.
//
//	storehelper save <dir> <spec.json>   saves the snapshots described by the spec one after the other,
//	                                     printing "BEGIN k" before and "SAVED k" / "FAILED k <err>" after each
//	storehelper load <dir>               prints "LOADED <sha256 of canonical JSON> <jobs>" or "LOADERR <err>"
package main

import (
	"crypto/sha256"
	"encoding/hex"
	"encoding/json"
	"fmt"
	"os"
	"runtime"
	"strings"
	"time"

	"github.com/gofrs/uuid"

	"github.com/Flowpack/prunner/store"
)

type spec struct {
	Tag  int `json:"tag"`
	Jobs int `json:"jobs"`
	Pad  int `json:"pad"`
}

var fixedTime = time.Date(2021, 5, 4, 3, 2, 1, 123456789, time.UTC)

func build(sp spec) *store.PersistedData {
	d := &store.PersistedData{Jobs: []store.PersistedJob{}}
	for i := 0; i < sp.Jobs; i++ {
		var id uuid.UUID
		id[0] = byte(sp.Tag)
		id[15] = byte(i + 1)
		st := fixedTime.Add(time.Duration(i) * time.Second)
		e := "exit status 3"
		vars := map[string]interface{}{"tag": float64(sp.Tag), "f": 0.30000000000000004, "s": "ünï \"q\"\n", "l": []interface{}{1.5, nil, true}}
		if sp.Pad > 0 {
			vars["pad"] = strings.Repeat("p", sp.Pad)
		}
		d.Jobs = append(d.Jobs, store.PersistedJob{ID: id, Pipeline: "p", Completed: true, Created: fixedTime, Start: &st, End: &st, Variables: vars, User: "u",
			Tasks: []store.PersistedTask{{Name: "a", Script: []string{"x"}, Status: "error", Errored: true, Error: &e, ExitCode: 3}}})
	}
	return d
}

func sum(d *store.PersistedData) string {
	b, _ := json.Marshal(d)
	h := sha256.Sum256(b)
	return hex.EncodeToString(h[:8])
}

func init() {
	// all file operations of the save sequence are issued by the main thread, the only one strace traces without -f
	runtime.LockOSThread()
}

func main() {
	if len(os.Args) < 3 {
		os.Exit(64)
	}
	js, err := store.NewJSONDataStore(os.Args[2])
	if err != nil {
		fmt.Println("INITERR", err)
		os.Exit(1)
	}
	switch os.Args[1] {
	case "sums":
		var specs []spec
		b, _ := os.ReadFile(os.Args[3])
		_ = json.Unmarshal(b, &specs)
		fmt.Println("EMPTY", sum(&store.PersistedData{}))
		for k, sp := range specs {
			fmt.Println("SUM", k, sum(build(sp)))
		}
	case "save":
		var specs []spec
		b, _ := os.ReadFile(os.Args[3])
		_ = json.Unmarshal(b, &specs)
		// the protocol lines go to a log file through pwrite64, which is not in the set of injected syscalls
		lf, err := os.OpenFile(os.Args[4], os.O_CREATE|os.O_RDWR|os.O_TRUNC, 0o644)
		if err != nil {
			os.Exit(65)
		}
		var off int64
		say := func(a ...interface{}) {
			line := fmt.Sprintln(a...)
			n, _ := lf.WriteAt([]byte(line), off)
			off += int64(n)
		}
		say("START")
		for k, sp := range specs {
			say("BEGIN", k)
			if err := js.Save(build(sp)); err != nil {
				say("FAILED", k, err)
			} else {
				say("SAVED", k)
			}
			if d, err := js.Load(); err != nil {
				say("AFTER", k, "LOADERR", err)
			} else {
				say("AFTER", k, sum(d))
			}
		}
	case "load":
		d, err := js.Load()
		if err != nil {
			fmt.Println("LOADERR", err)
			return
		}
		fmt.Println("LOADED", sum(d), len(d.Jobs))
	}
}
