// verifctl is the orchestrator of the verification harness: it rebuilds the
// simulation binaries from /repo's working tree, fans seeds out to worker
// processes, merges their results, replays every violation in a fresh process,
// classifies it against /verif/known_findings.json and writes the evidence file.
//
// Exit codes: 0 property held on everything explored, 1 violation (with a
// "VIOLATION property=<id> replay=<path>" line), 2 harness / build trouble.
package main

import (
	"crypto/sha256"
	"encoding/json"
	"fmt"
	"os"
	"os/exec"
	"path/filepath"
	"regexp"
	"runtime"
	"sort"
	"strconv"
	"strings"
	"sync"
	"time"

	"verif/sig"
)

// ---------------------------------------------------------------------------
// per-property configuration

type propCfg struct {
	ID        string
	Pkg       string // package holding the engine's test binary
	Profile   string
	Race      bool
	Level     string
	QuickS    float64 // seconds of search per worker, quick tier
	ThoroughS float64
	Rule      string // how cases are generated and what makes one non-trivial
	PanicIsViolation bool
	Real      []string
	Stubbed   []string
	Assume    []string
	Workers   int // 0 = all cores
	MinBudget int // candidate runs the in-process minimiser may spend per violation (0 = 400)
}

var realA = []string{"prunner.PipelineRunner (prunner.go)", "taskctl.Scheduler (taskctl/scheduler.go)", "github.com/taskctl/taskctl/pkg/scheduler execution graph", "definition package"}
var stubA = []string{"task runner: taskctl.TaskRunner / child processes replaced by the simulator's stub runner (conformance-tested against the real runner in setup)"}
var assumeA = []string{
	"sampling, not proof: seeded search over schedules and fault sequences",
	"the scheduler's launch pass is one atomic step and cancel propagation is evaluated against the statuses at the start of a pass (DESIGN §2.3)",
	"Go runtime, testing/synctest and the oracles' reading of the property statements are trusted",
}

func cfgA(id, rule string, panicV bool) propCfg {
	return propCfg{ID: id, Pkg: "./sim", Profile: id, Level: "exploration", QuickS: 20, ThoroughS: 900, Rule: rule,
		PanicIsViolation: panicV, Real: realA, Stubbed: stubA, Assume: assumeA}
}

func cfgC(id, rule string) propCfg {
	c := cfgA(id, rule, false)
	c.QuickS = 25
	c.Workers = 8
	c.Real = []string{"prunner.PipelineRunner", "taskctl.Scheduler", "taskctl.TaskRunner, PgidExecutor, mvdan/sh interpreter (real)", "real child processes (/bin/sh, coreutils)", "taskctl.FileOutputStore", "server handlers (/job/logs)"}
	c.Stubbed = []string{"nothing; the simulator only decides the interleaving of job and stage goroutines at the hook points"}
	c.Assume = []string{"scenario-replayable only: the kernel schedules the child processes, the fake clock stands still while they run", "output that is not valid UTF-8 is not generated (the JSON log API cannot carry it)", "sampling, not proof"}
	return c
}

func minBudget(c propCfg) int {
	if c.MinBudget > 0 {
		return c.MinBudget
	}
	return 400
}

func cfgStore(c propCfg) propCfg {
	c.Real = append(append([]string{}, c.Real...), "store.JsonDataStore on a per-run directory in /dev/shm (or the recording in-memory store)", "taskctl.FileOutputStore (C12)", "persist loop of NewPipelineRunner")
	return c
}

var props = map[string]propCfg{
	"C01": cfgA("C01", "seeded scenarios (1-3 pipelines, concurrency 1-3, queues, delays, reloads, cancels, failing tasks, unbuildable jobs) x seeded schedules; non-trivial = a queued job was started by a dequeue; distinct = distinct trace hash", true),
	"C02": cfgA("C02", "seeded task graphs (chains, diamonds, random DAGs up to 6 tasks, self loops and back edges, duplicate and renamed dependencies) x seeded completion orders and outcomes; non-trivial = a job with >= 2 tasks ran; distinct = distinct trace hash", true),
	"C03": cfgA("C03", "seeded histories biased to start delays, cancels of waiting jobs, unbuildable queue heads and reloads; settle-and-check actions; non-trivial = a waiting job was canceled, dequeued or seen waiting in a settled state; distinct = distinct trace hash", true),
	"C04": cfgA("C04", "seeded histories with as many cancels as schedules against multi-task jobs; the scheduler-loop hook makes the gap between two tasks an ordinary scheduling choice; non-trivial = a cancel of an unfinished job was acknowledged; distinct = distinct trace hash", true),
	"C05": cfgA("C05", "seeded single-pipeline configurations over concurrency x queue_limit x strategy x delay with long schedule/cancel programmes; every schedule step is compared with the admission table of the statement; non-trivial = a request was queued, replaced or rejected; distinct = distinct trace hash", false),
	"C06": cfgA("C06", "seeded histories with deep append queues, cancels, failures and unbuildable jobs; non-trivial = a queued job was started by a dequeue; distinct = distinct trace hash", true),
	"C07": cfgA("C07", "seeded histories on pipelines with start_delay (50ms-10s), replace bursts, clock jumps and stalls; non-trivial = a delayed job started or a waiting job was replaced; distinct = distinct trace hash", false),
	"C08": cfgA("C08", "seeded graphs x forced and tape-drawn task failures x allow_failure x both fail-fast settings, verdict read through ReadJob and /job/detail; non-trivial = a task failed in a started job; distinct = distinct trace hash", true),
	"C09": {ID: "C09", Pkg: "./sim", Profile: "C09", Level: "fault_enumeration", QuickS: 12, ThoroughS: 600,
		Rule: "B1: seeded savers (1-3, overlapping) and loaders on one real directory, snapshots from empty to ~2 MB with all JSON types, parked between every file operation of Save/Load, crash (directory copy with torn temp files) and injected write errors as choices; after every step and every crash a fresh Load must return exactly the snapshot most recently renamed into place. B2: a helper process built from /repo saves a fixed sequence under strace; SIGKILL is injected at every syscall that touches the store directory, ENOSPC at every write, and a loader process checks the directory (exhaustive over syscall boundaries for the sequences). non-trivial = a save completed; distinct = distinct trace hash (B1) plus one per injection point (B2)",
		Real: []string{"store.JsonDataStore (store/store.go) on real files in /dev/shm", "B2: the real process, real kernel file operations under strace"}, Stubbed: []string{"nothing (B1 replaces the callers of the store by scripted savers/loaders)"},
		Assume: []string{"process death only: no power-loss / fsync semantics", "errors that surface only at close(2) are not modelled", "B1 sampling; B2 exhaustive for the chosen save sequences"}},
	"C10": cfgStore(cfgA("C10", "seeded histories with the persist loop live on the real JsonDataStore (70%) or an in-memory store, job variables of every JSON type, failing tasks, store write errors; crash-and-restart as a scheduling choice at every step, including inside a save; non-trivial = a restart loaded a snapshot containing jobs; distinct = distinct trace hash", false)),
	"C11": cfgStore(cfgA("C11", "seeded histories with one or two Shutdown calls (graceful / forced with deadlines 0ms-5s, with and without cancelling the runner context first) begun in any state, concurrent schedule/cancel/save clients, settle actions that wait three persist pauses; non-trivial = a Shutdown returned or persist liveness was evaluated; distinct = distinct trace hash", false)),
	"C12": cfgStore(cfgA("C12", "seeded retention_count x retention_period x several pipelines, clock jumps between jobs, reloads that drop pipelines, explicit saves interleaved with activity, restarts, log removal errors; the real FileOutputStore holds the logs; non-trivial = a save removed jobs; distinct = distinct trace hash", false)),
	"C13": func() propCfg {
		c := cfgStore(cfgA("C13", "race build (-race) of the same simulator with the simulator's own hand-offs hidden from the detector: 2-4 clients issue every exported operation (schedule, cancel, read, list, iterate, save, reload, shutdown) while jobs, timers and the persist loop run; readers park inside IterateJobs/ReadJob callbacks and log removal parks inside a save, so that one read-lock holder runs in the middle of another's critical section; oracle = race detector report / runtime fatal error / panic involving prunner code, as a deterministic function of the tape; non-trivial = a read-lock holder ran while another one was parked inside; distinct = distinct trace hash", true))
		c.Race = true
		c.QuickS = 25
		c.Assume = append(append([]string{}, c.Assume...), "the race detector keeps a bounded access history per memory location: two accesses far apart can be missed", "WaitGroup Add-concurrent-with-Wait annotations of the detector are counted, not reported (DESIGN §2.8)", "no API-level oracle runs in this configuration: the driver makes no calls into the runner, so that it adds no happens-before edges")
		return c
	}(),
	"C14": func() propCfg {
		c := cfgA("C14", "seeded HTTP clients against the real handler (no sockets) while jobs run: route drawn from the routes discovered by walking the router, credential class from {none, garbage, empty, truncated, wrong secret, alg none, HS384, HS512, RS256 header, expired, not yet valid, valid, valid with exp/nbf at seeded distances from the fake now}, transport from {Authorization header, lower-case bearer, jwt cookie}, profiling on/off per run; the clock is advanced across exp/nbf between requests; every answer is compared with nbf <= now < exp, rejected requests must leave the runner's state digest and the stub untouched; non-trivial = an HTTP request was judged; distinct = distinct trace hash. The route x credential x transport cross product is plain enumeration reached by sampling, the simulator contributes the clock and the live runner", false)
		c.Real = append(append([]string{}, c.Real...), "server package: chi router, jwtauth verifier/authenticator, handlers (via http.Handler, no sockets)", "lestrrat-go/jwx token validation on the fake clock")
		return c
	}(),
	"C17": {ID: "C17", Pkg: "./sim", Profile: "C17", Level: "exploration", QuickS: 15, ThoroughS: 600,
		Rule: "(a) simulated: the real reload loop of the binary (watch mode, 30s ticker on the fake clock) next to an editor that rewrites 1-3 real YAML files in nested directories: single-field edits chosen by reflection over the exported fields of PipelineDef/TaskDef (so future fields are included), written atomically or torn in two steps with polls in between, and invalid edits (each validation rule once, duplicate names across files, broken YAML); after each completed edit and more than one poll interval the installed definitions must be what the files say, they must be valid at every step, and invalid files must leave the last valid definitions installed. (b) NOT simulation (direct input generation, counted separately as direct_equals_single_field_difference): Equals on reflection-generated single-field differences, load result of a valid file set. non-trivial = an edit was checked after a poll; distinct = distinct trace hash",
		Real: []string{"app.handleDefinitionChanges (reload loop)", "definition.LoadRecursively / Load / validate / Equals", "PipelineRunner.ReplaceDefinitions", "real YAML files on /dev/shm"}, Stubbed: []string{"no jobs run in this engine (task runner unused)"},
		Assume: []string{"file modification times come from the real kernel clock, not the fake one", "SIGUSR1-triggered reload is not exercised (signals cannot be delivered into a bubble)", "sampling, not proof"}},
	"C18": cfgC("C18", "seeded assignments of 4 names to the three environment levels (process env set by the harness, pipeline env, task env) in every overlap pattern, values with spaces, quotes, newlines, $, =, glob characters and non-ASCII; per-job variable maps (strings, numbers, lists) rendered through {{.var}}; 1-2 pipelines x 1-2 tasks, 1-4 jobs overlapping with the interleaving of job and stage goroutines chosen by the tape; every task reports, through interpreter built-ins and through an executed /bin/sh, what it sees (hex encoded); the reserved variable name __jobID in some requests; non-trivial = a finished task's report was compared; distinct = distinct trace hash"),
	"C19": cfgC("C19", "seeded tasks of 1-4 commands writing known payloads (empty, partial lines, 4 KiB boundaries, 64 KiB, 1 MiB, 4 MiB, multi-byte text around 32 KiB, interleaved stdout/stderr), unusual task names, 1-3 concurrent jobs x 1-4 tasks writing at once through the real FileOutputStore; afterwards the log store and GET /job/logs must return exactly what each task's commands wrote, a task the job does not have must be refused, and no log directory may belong to no job; non-trivial = a finished task's output was compared; distinct = distinct trace hash"),
	"C20": func() propCfg {
		c := cfgC("C20", "REAL clock, real kernel (nothing simulated but the scenario generation): 1-3 concurrent jobs whose scripts are drawn from a process-tree grammar (foreground, background + wait, pipes, nested shells, interpreter-level background, several commands, a line that leaves a background process behind; optionally SIGINT ignored, optionally stdio detached), a seeded subset canceled at seeded instants or ended by a forced shutdown, kill timeout 1s; every process carries a mark in its environment; once a job is reported finished /proc must hold no live marked process of it after a 250ms grace, the report must come within kill timeout + 2s, bystander jobs must be untouched; a failure counts only if it repeats in three executions of the same scenario. non-trivial = a canceled process tree was checked; distinct = distinct scenario")
		c.QuickS = 40
		c.ThoroughS = 900
		c.Workers = 4
		c.MinBudget = 6 // every candidate is seconds of real time
		c.Assume = []string{"weakest check of the set: real executions on a real kernel, replay reproduces the scenario, not the kernel's schedule", "a violation is reported only if three executions of the scenario all show it", "at most 4 workers so that the machine is not loaded", "processes that leave their process group (setsid) are outside the statement"}
		return c
	}(),
	"C15": cfgA("C15", "seeded histories with settle-and-probe actions (list, then schedule at once), HTTP and direct reads; non-trivial = a schedulable probe or HTTP listing was evaluated; distinct = distinct trace hash", false),
	"C16": cfgA("C16", "seeded old/new definition pairs produced by mutation (tasks added/removed/rewired, scripts, env, delay, limits, strategy, pipelines dropped/added), reloads at seeded points of job lives; non-trivial = a reload happened while a job was waiting or running; distinct = distinct trace hash", true),
}

// ---------------------------------------------------------------------------
// worker protocol (mirrors verif/sim/worker_test.go)

type Violation struct {
	Prop string `json:"property"`
	Rule string `json:"rule"`
	Msg  string `json:"message"`
	Step int    `json:"step"`
}

type FoundViolation struct {
	Seed      uint64    `json:"seed"`
	V         Violation `json:"violation"`
	Replay    string    `json:"replay"`
	OrigTape  int       `json:"orig_tape_len"`
	MinTape   int       `json:"min_tape_len"`
	OrigOps   int       `json:"orig_ops"`
	MinOps    int       `json:"min_ops"`
	MinRuns   int       `json:"min_runs"`
	Reproduce bool      `json:"reproduced_in_process"`
}

type WorkerOut struct {
	Runs         int               `json:"runs"`
	Steps        int64             `json:"steps"`
	SimSeconds   float64           `json:"sim_seconds"`
	WallS        float64           `json:"wall_s"`
	Faults       map[string]int    `json:"faults"`
	Probes       map[string]int    `json:"probes"`
	Hashes       []string          `json:"hashes"`
	Abstract     []string          `json:"abstract"`
	Samples      []json.RawMessage `json:"samples"`
	Violations   []FoundViolation  `json:"violations"`
	OtherProps   map[string]int    `json:"other_props"`
	Inconclusive map[string]int    `json:"inconclusive"`
	Leaks        int               `json:"leaks"`
	Accepted     int               `json:"accepted"`
	Started      int               `json:"started"`
	Errors       []string          `json:"errors"`
	SeedsFirst   uint64            `json:"seed_first"`
	SeedsLast    uint64            `json:"seed_last"`
	Sets         map[string][]string `json:"sets,omitempty"`
	Extra        map[string]interface{} `json:"extra,omitempty"`
}

type WorkerJob struct {
	Mode      string  `json:"mode"`
	Property  string  `json:"property"`
	Profile   string  `json:"profile"`
	SeedBase  uint64  `json:"seed_base"`
	Worker    int     `json:"worker"`
	Workers   int     `json:"workers"`
	StartK    int     `json:"start_k,omitempty"`
	MaxRuns   int     `json:"max_runs"`
	DeadlineS float64 `json:"deadline_s"`
	Replay    string  `json:"replay,omitempty"`
	Out       string  `json:"out"`
	ReplayDir string  `json:"replay_dir"`
	MinBudget int     `json:"min_budget"`
	OnlySeed  *uint64 `json:"only_seed,omitempty"`
	Tier      string  `json:"tier,omitempty"`
	NoMin     bool    `json:"no_min,omitempty"`
	MaxViol   int     `json:"max_viol,omitempty"`
}

type KnownFinding struct {
	ID        string   `json:"id"`
	Property  string   `json:"property"`
	Rule      string   `json:"rule"`
	Status    string   `json:"status"` // open | fixed
	What      string   `json:"what"`
	Signature []string `json:"signature"` // regular expressions that must all match the minimised replay file (scenario + trace)
	Replay    string   `json:"replay"`
	Commit    string   `json:"fix_commit,omitempty"`
}

type KnownFile struct {
	Findings []KnownFinding `json:"findings"`
	Lines    []string       `json:"lines"`
}

// ---------------------------------------------------------------------------

var verifDir string

func die2(format string, a ...interface{}) {
	fmt.Fprintf(os.Stderr, "verifctl: "+format+"\n", a...)
	os.Exit(2)
}

func goEnv() []string {
	env := os.Environ()
	env = append(env, "GOFLAGS=-mod=mod", "GOPROXY=off", "GOSUMDB=off", "GOTOOLCHAIN=local", "CGO_ENABLED=1")
	return env
}

func goTool() string {
	if p, err := exec.LookPath("go1.26.8"); err == nil {
		return p
	}
	return "/opt/veriftools/go1.26.8/bin/go"
}

// prepareTree copies /repo's working tree (without .git) into the scratch
// directory, inserts hook points before lock acquisitions that have none
// (cmd/instrument) and writes a module file that points the harness at the copy.
var modFile string

func prepareTree(work string) error {
	tree := filepath.Join(work, "tree")
	if err := os.MkdirAll(tree, 0o755); err != nil {
		return err
	}
	repo := "/repo"
	if v := os.Getenv("VERIF_REPO"); v != "" {
		repo = v
	}
	cp := exec.Command("sh", "-c", fmt.Sprintf("cd %s && tar --exclude=.git -cf - . | tar -xf - -C %s", repo, tree))
	if b, err := cp.CombinedOutput(); err != nil {
		return fmt.Errorf("copying %s: %v\n%s", repo, err, b)
	}
	ins := exec.Command(filepath.Join(verifDir, "bin", "instrument"), tree)
	if b, err := ins.CombinedOutput(); err != nil {
		return fmt.Errorf("instrumenting the copy of %s failed (does it still parse?): %v\n%s", repo, err, b)
	}
	mod, err := os.ReadFile(filepath.Join(verifDir, "go.mod"))
	if err != nil {
		return err
	}
	m := strings.Replace(string(mod), "=> /repo", "=> "+tree, 1)
	modFile = filepath.Join(work, "go.mod")
	if err := os.WriteFile(modFile, []byte(m), 0o644); err != nil {
		return err
	}
	sum, _ := os.ReadFile(filepath.Join(verifDir, "go.sum"))
	return os.WriteFile(filepath.Join(work, "go.sum"), sum, 0o644)
}

func build(pkg, out string, race bool) error {
	args := []string{"test", "-tags", "verif", "-vet=off", "-c", "-o", out}
	if modFile != "" {
		args = append(args, "-modfile="+modFile)
	}
	if race {
		args = append(args, "-race")
	}
	args = append(args, pkg)
	cmd := exec.Command(goTool(), args...)
	cmd.Dir = verifDir
	cmd.Env = goEnv()
	b, err := cmd.CombinedOutput()
	if err != nil {
		return fmt.Errorf("go %s: %v\n%s", strings.Join(args, " "), err, b)
	}
	return nil
}

func main() {
	if len(os.Args) < 2 {
		die2("usage: verifctl check <property> [quick|thorough] | replay <file>")
	}
	exe, _ := os.Executable()
	verifDir = filepath.Dir(filepath.Dir(exe))
	if v := os.Getenv("VERIF_DIR"); v != "" {
		verifDir = v
	}
	switch os.Args[1] {
	case "check":
		if len(os.Args) < 3 {
			die2("usage: verifctl check <property> [quick|thorough]")
		}
		tier := "quick"
		if len(os.Args) > 3 {
			tier = os.Args[3]
		}
		if t := os.Getenv("VERIF_TIER"); t != "" && len(os.Args) <= 3 {
			tier = t
		}
		os.Exit(check(os.Args[2], tier))
	case "replay":
		if len(os.Args) < 3 {
			die2("usage: verifctl replay <file>")
		}
		os.Exit(replayCmd(os.Args[2]))
	case "selftest":
		os.Exit(selftest())
	default:
		die2("unknown command %q", os.Args[1])
	}
}

func seedFromEnv() uint64 {
	if s := os.Getenv("VERIF_SEED"); s != "" {
		if v, err := strconv.ParseUint(s, 10, 64); err == nil {
			return v
		}
		if v, err := strconv.ParseInt(s, 10, 64); err == nil {
			return uint64(v)
		}
	}
	return 1
}

type runCtx struct {
	seedBase uint64 // first seed of the batch; worker w runs seedBase + w + k*nworkers
	nworkers int
	cfg     propCfg
	tier    string
	seed    uint64
	work    string
	bin     string
	known   KnownFile
	t0      time.Time
}

func loadKnown() KnownFile {
	var k KnownFile
	b, err := os.ReadFile(filepath.Join(verifDir, "known_findings.json"))
	if err != nil {
		return k
	}
	if err := json.Unmarshal(b, &k); err != nil {
		die2("known_findings.json: %v", err)
	}
	return k
}

func runWorker(rc *runCtx, job WorkerJob, extraEnv ...string) (*WorkerOut, string, error) {
	spec, _ := json.Marshal(job)
	cmd := exec.Command(rc.bin, "-test.run", "^TestWorker$", "-test.timeout", "0")
	cmd.Env = append(os.Environ(), "VERIF_JOB="+string(spec), "GOMAXPROCS=1", "GOMEMLIMIT=3GiB", "GORACE=halt_on_error=0 history_size=3")
	cmd.Env = append(cmd.Env, extraEnv...)
	cmd.Dir = verifDir
	var stderr strings.Builder
	cmd.Stderr = &stderr
	cmd.Stdout = &stderr
	err := cmd.Run()
	b, rerr := os.ReadFile(job.Out)
	if rerr != nil {
		if err == nil {
			err = rerr
		}
		return nil, stderr.String(), err
	}
	var out WorkerOut
	if jerr := json.Unmarshal(b, &out); jerr != nil {
		return nil, stderr.String(), jerr
	}
	return &out, stderr.String(), err
}

func check(prop, tier string) int {
	cfg, ok := props[prop]
	if !ok {
		die2("no check registered for property %s", prop)
	}
	if v := os.Getenv("VERIF_PROFILE"); v != "" {
		cfg.Profile = v // development aid: run the oracles of one property on the scenarios of another
	}
	rc := &runCtx{cfg: cfg, tier: tier, seed: seedFromEnv(), t0: time.Now(), known: loadKnown()}
	rc.work = filepath.Join(verifDir, "work", fmt.Sprintf("%s-%s-%d", prop, tier, os.Getpid()))
	if err := os.MkdirAll(rc.work, 0o755); err != nil {
		die2("%v", err)
	}
	defer os.RemoveAll(rc.work)
	_ = os.MkdirAll(filepath.Join(verifDir, "replays"), 0o755)
	_ = os.MkdirAll(filepath.Join(verifDir, "evidence"), 0o755)
	rc.bin = filepath.Join(rc.work, "engine.test")
	fmt.Printf("verifctl: property %s tier %s VERIF_SEED=%d\n", prop, tier, rc.seed)
	if err := prepareTree(rc.work); err != nil {
		fmt.Fprintln(os.Stderr, err)
		os.RemoveAll(rc.work)
		os.Exit(2)
	}
	if err := build(cfg.Pkg, rc.bin, cfg.Race); err != nil {
		fmt.Fprintln(os.Stderr, err)
		os.RemoveAll(rc.work)
		os.Exit(2)
	}

	code := 0
	// 1. stored replays of open known findings
	knownSeen := map[string]bool{}
	for _, k := range rc.known.Findings {
		if k.Property != prop || k.Status != "open" || k.Replay == "" {
			continue
		}
		rep, _, err := replayFile(rc, filepath.Join(verifDir, k.Replay))
		if err == nil && rep {
			fmt.Printf("KNOWN-FINDING: property=%s %s\n", prop, k.What)
			knownSeen[k.ID] = true
		}
	}

	// 2. search
	nw := runtime.NumCPU()
	if cfg.Workers > 0 && cfg.Workers < nw {
		nw = cfg.Workers
	}
	deadline := cfg.QuickS
	if tier == "thorough" {
		deadline = cfg.ThoroughS
	}
	if s := os.Getenv("VERIF_BUDGET_S"); s != "" {
		if v, err := strconv.ParseFloat(s, 64); err == nil {
			deadline = v
		}
	}
	seedBase := rc.seed * 1_000_003
	outs := make([]*WorkerOut, 0, nw)
	var crashes []crashInfo
	var raceLogs []string
	restarts := 0
	var mu sync.Mutex
	rc.seedBase, rc.nworkers = seedBase, nw
	var wg sync.WaitGroup
	trouble := []string{}
	for w := 0; w < nw; w++ {
		wg.Add(1)
		go func(w int) {
			defer wg.Done()
			startK := 0
			tEnd := time.Now().Add(time.Duration(deadline * float64(time.Second)))
			for attempt := 0; attempt < 40; attempt++ {
				remaining := time.Until(tEnd).Seconds()
				if remaining < 1 && attempt > 0 {
					return
				}
				job := WorkerJob{Mode: "search", Property: prop, Profile: cfg.Profile, SeedBase: seedBase, Worker: w, Workers: nw, StartK: startK,
					DeadlineS: remaining, Out: filepath.Join(rc.work, fmt.Sprintf("w%d-%d.json", w, attempt)), ReplayDir: filepath.Join(rc.work, "replays"), MinBudget: minBudget(cfg), Tier: tier}
				out, stderr, err := runWorker(rc, job)
				if out != nil {
					mu.Lock()
					outs = append(outs, out)
					if cfg.Race {
						raceLogs = append(raceLogs, stderr)
					}
					mu.Unlock()
					return
				}
				// the worker died: which seed was it running?
				pb, perr := os.ReadFile(job.Out + ".progress")
				if perr != nil {
					mu.Lock()
					trouble = append(trouble, fmt.Sprintf("worker %d failed before its first run: %v\n%s", w, err, tail(stderr, 30)))
					mu.Unlock()
					return
				}
				var seed uint64
				var k int
				fmt.Sscan(string(pb), &seed, &k)
				partial := readPartial(job.Out + ".partial")
				mu.Lock()
				if partial != nil {
					outs = append(outs, partial)
				}
				if strings.Contains(stderr, "WATCHDOG") {
					trouble = append(trouble, fmt.Sprintf("worker %d: watchdog fired at seed %d (the simulator hung)\n%s", w, seed, tail(stderr, 15)))
					mu.Unlock()
					return
				}
				if cfg.Race && sig.Panic(stderr) == "" {
					// race build: a report makes the testing package end the test function, occasionally the whole
					// worker; the reports themselves are evaluated below, the worker is simply restarted
					raceLogs = append(raceLogs, stderr)
					restarts++
				} else {
					crashes = append(crashes, crashInfo{Seed: seed, Stderr: stderr})
				}
				mu.Unlock()
				startK = k + 1
			}
		}(w)
	}
	wg.Wait()
	if len(trouble) > 0 {
		for _, t := range trouble {
			fmt.Fprintln(os.Stderr, t)
		}
		return 2
	}

	merged := merge(outs)
	if prop == "C09" {
		b2, err := runB2(rc)
		if err != nil {
			fmt.Fprintf(os.Stderr, "verifctl: engine B2: %v\n", err)
			return 2
		}
		merged.Runs += b2.Evaluations
		for k, v := range b2.Points {
			merged.Extra["b2_"+k] = float64(v)
		}
		merged.Extra["b2_injected_runs"] = float64(b2.Evaluations)
		merged.Extra["b1_simulated_runs"] = float64(merged.Runs - b2.Evaluations)
		merged.Faults["b2_sigkill_at_syscall"] = 0
		merged.Faults["b2_enospc_at_write"] = 0
		for k, v := range b2.Points {
			if strings.HasSuffix(k, "kill_points") {
				merged.Faults["b2_sigkill_at_syscall"] += v
			} else {
				merged.Faults["b2_enospc_at_write"] += v
			}
		}
		for i := 0; i < b2.Evaluations; i++ {
			merged.Hashes = append(merged.Hashes, fmt.Sprintf("b2-%d", i))
		}
		for _, s := range b2.Samples {
			sb, _ := json.Marshal(s)
			merged.Samples = append([]json.RawMessage{sb}, merged.Samples...)
		}
		if len(merged.Samples) > 3 {
			merged.Samples = merged.Samples[:3]
		}
		merged.Violations = append(merged.Violations, b2.Violations...)
	}

	// 2b. race configuration (C13): reports printed by the detector, attributed to seeds by the worker's markers
	if cfg.Race {
		nrep, nwg, nharness := 0, 0, 0
		type cand struct {
			seed  uint64
			n     int // relevant reports in that seed's run: the more, the more robustly the run reproduces
			text  string
			total int
		}
		best := map[string]*cand{}
		for _, lg := range raceLogs {
			parts := strings.Split(lg, "VERIF-SEED ")
			for _, part := range parts[1:] {
				var seed uint64
				fmt.Sscan(part, &seed)
				reps := sig.Races(part)
				rel := 0
				for _, r := range reps {
					if r.Sig != "" {
						rel++
					}
				}
				for _, r := range reps {
					nrep++
					switch {
					case r.WaitGroup:
						nwg++
					case r.Sig == "":
						nharness++
					default:
						c := best[r.Sig]
						if c == nil {
							c = &cand{}
							best[r.Sig] = c
						}
						c.total++
						if rel > c.n {
							c.seed, c.n, c.text = seed, rel, r.Text
						}
					}
				}
			}
		}
		var sigsByFreq []string
		for k := range best {
			sigsByFreq = append(sigsByFreq, k)
		}
		sort.Slice(sigsByFreq, func(i, j int) bool {
			a, b := best[sigsByFreq[i]], best[sigsByFreq[j]]
			if a.total != b.total {
				return a.total > b.total
			}
			return sigsByFreq[i] < sigsByFreq[j]
		})
		for _, k := range sigsByFreq {
			c := best[k]
			crashes = append(crashes, crashInfo{Seed: c.seed, Stderr: "==================\n" + c.text + "\n=================="})
		}
		merged.Extra["distinct_race_signatures"] = float64(len(best))
		merged.Extra["worker_restarts_after_race_report"] = float64(restarts)
		merged.Extra["race_reports_total"] = float64(nrep)
		merged.Extra["waitgroup_annotations"] = float64(nwg)
		merged.Extra["race_reports_in_harness_code_only"] = float64(nharness)
	}

	// 3. runs that killed the process
	aborted := 0
	seenCrashSig := map[string]bool{}
	type crashJob struct {
		c   crashInfo
		sig string
	}
	var cjobs []crashJob
	for _, c := range crashes {
		sig := panicSignature(c.Stderr)
		if strings.Contains(c.Stderr, "WATCHDOG") {
			fmt.Fprintf(os.Stderr, "verifctl: worker watchdog fired at seed %d\n%s\n", c.Seed, tail(c.Stderr, 20))
			return 2
		}
		if sig == "" {
			fmt.Fprintf(os.Stderr, "verifctl: worker died at seed %d without a recognisable panic\n%s\n", c.Seed, tail(c.Stderr, 40))
			return 2
		}
		if seenCrashSig[sig] && len(seenCrashSig) > 0 {
			aborted++
			continue
		}
		seenCrashSig[sig] = true
		maxAnalyses := 2
		if tier == "thorough" {
			maxAnalyses = 8
		}
		if len(cjobs) >= maxAnalyses {
			aborted++
			continue
		}
		cjobs = append(cjobs, crashJob{c, sig})
	}
	{
		var cwg sync.WaitGroup
		var cerr error
		for _, cj := range cjobs {
			cwg.Add(1)
			go func(cj crashJob) {
				defer cwg.Done()
				fv, err := analyseCrash(rc, cj.c.Seed, cj.sig)
				mu.Lock()
				defer mu.Unlock()
				if err != nil {
					cerr = fmt.Errorf("crash at seed %d could not be analysed: %v", cj.c.Seed, err)
					return
				}
				if fv == nil {
					aborted++
					return
				}
				merged.Violations = append(merged.Violations, *fv)
			}(cj)
		}
		cwg.Wait()
		if cerr != nil {
			fmt.Fprintln(os.Stderr, "verifctl:", cerr)
			return 2
		}
	}

	// 4. classify and confirm violations
	type reported struct {
		fv    FoundViolation
		known *KnownFinding
	}
	var rep []reported
	var unreproduced []string
	byRule := map[string]int{}
	for _, fv := range merged.Violations {
		if byRule[fv.V.Rule] >= 2 {
			continue
		}
		ok, hashOK, err := replayFile(rc, fv.Replay)
		if err == nil && !ok && rc.cfg.ID == "C20" {
			// engine P runs on the real clock: the executions in the worker (three of three showed the violation) and
			// the fresh processes differ in load. What it saw is classified from its own record: a listed known finding
			// is one whether or not this instance shows again; anything else that does not show again is harness trouble.
			if k := matchKnown(rc, fv); k != nil {
				merged.Inconclusive["instance of a known finding seen in the worker but not in fresh processes (real-time scenario)"]++
				byRule[fv.V.Rule]++
				rep = append(rep, reported{fv, k})
				continue
			}
		}
		if err == nil && !ok && fv.V.Rule == "race" {
			// the detector's report for one schedule is not perfectly stable across processes (bounded access
			// history): a report that cannot be reproduced is dropped and counted, it is neither a violation nor trouble
			if ok, hashOK, err = replayFile(rc, fv.Replay); err == nil && !ok {
				merged.Inconclusive["race report not reproducible in a fresh process"]++
				continue
			}
		}
		if err == nil && !ok && fv.V.Rule != "race" {
			// The simulator decides every interleaving, but not choices the code under test draws from the Go runtime
			// itself (iteration order of its own maps): a violation that depends on one replays with a probability.
			// It is reported if one of four more fresh processes shows it again; otherwise it stays harness trouble.
			for i := 0; i < 4 && err == nil && !ok; i++ {
				ok, hashOK, err = replayFile(rc, fv.Replay)
			}
			if ok {
				merged.Inconclusive["violation reproduced only in a later replay attempt (depends on runtime map order in the code under test)"]++
			}
		}
		if err == nil && !ok && (rc.cfg.ID == "C18" || rc.cfg.ID == "C19") {
			// engine C runs real child processes, whose timing the simulator does not decide (scenario-replayable only): a
			// violation that five fresh processes do not show again is set aside and the next candidate is tried; if none of
			// the candidates can be shown again the check ends as inconclusive (exit 2), never as "held"
			merged.Inconclusive["violation seen once with real child processes, not reproducible in five fresh processes"]++
			unreproduced = append(unreproduced, fmt.Sprintf("%s/%s seed %d", fv.V.Prop, fv.V.Rule, fv.Seed))
			continue
		}
		if err == nil && !ok && fv.V.Rule != "race" && tryChain(rc, &fv) {
			ok, hashOK = true, true
			merged.Inconclusive["violation reproduced only together with the preceding runs of its worker (package-level state in the code under test)"]++
		}
		if err != nil || !ok {
			fmt.Fprintf(os.Stderr, "verifctl: violation %s/%s (seed %d) did not reproduce from %s in a fresh process (err=%v) — harness trouble\n", fv.V.Prop, fv.V.Rule, fv.Seed, fv.Replay, err)
			return 2
		}
		if !hashOK {
			fmt.Fprintf(os.Stderr, "verifctl: note: replay of %s reproduces the violation with a different trace hash\n", fv.Replay)
		}
		byRule[fv.V.Rule]++
		k := matchKnown(rc, fv)
		rep = append(rep, reported{fv, k})
	}
	if len(rep) == 0 && len(unreproduced) > 0 {
		fmt.Fprintf(os.Stderr, "verifctl: %d violations were seen but none could be reproduced in fresh processes (%s) — inconclusive\n", len(unreproduced), strings.Join(unreproduced, ", "))
		return 2
	}
	nviol := 0
	var violLines []string
	for _, r := range rep {
		if r.known != nil {
			if !knownSeen[r.known.ID] {
				fmt.Printf("KNOWN-FINDING: property=%s %s\n", prop, r.known.What)
				knownSeen[r.known.ID] = true
			}
			continue
		}
		nviol++
		// only reported violations leave the scratch directory
		final := filepath.Join(verifDir, "replays", filepath.Base(r.fv.Replay))
		if b, err := os.ReadFile(r.fv.Replay); err == nil {
			_ = os.WriteFile(final, b, 0o644)
		}
		fmt.Printf("  %s/%s seed=%d: %s\n", r.fv.V.Prop, r.fv.V.Rule, r.fv.Seed, r.fv.V.Msg)
		violLines = append(violLines, fmt.Sprintf("VIOLATION property=%s replay=%s", prop, final))
	}
	for _, l := range violLines {
		fmt.Println(l)
	}
	if nviol > 0 {
		code = 1
	}
	writeEvidence(rc, merged, nw, deadline, nviol, aborted, knownSeen, len(crashes))
	fmt.Printf("verifctl: %s %s: %d runs, %d steps, %.0f simulated seconds, %d distinct non-trivial traces, %d violations, %.1fs wall\n",
		prop, tier, merged.Runs, merged.Steps, merged.SimSeconds, len(merged.Hashes), nviol, time.Since(rc.t0).Seconds())
	return code
}

type crashInfo struct {
	Seed   uint64
	Stderr string
}

func readPartial(path string) *WorkerOut {
	b, err := os.ReadFile(path)
	if err != nil {
		return nil
	}
	var out WorkerOut
	if json.Unmarshal(b, &out) != nil {
		return nil
	}
	return &out
}

func tail(s string, n int) string {
	lines := strings.Split(strings.TrimRight(s, "\n"), "\n")
	if len(lines) > n {
		lines = lines[len(lines)-n:]
	}
	return strings.Join(lines, "\n")
}

func panicSignature(stderr string) string { return sig.Any(stderr) }

// analyseCrash re-runs the seed in its own process with a crash log, decides
// what the run violates, minimises it out of process and writes the replay file.
func analyseCrash(rc *runCtx, seed uint64, sig string) (*FoundViolation, error) {
	hs := sha256.Sum256([]byte(sig))
	out := filepath.Join(rc.work, fmt.Sprintf("crash-%d-%x.json", seed, hs[:3]))
	job := WorkerJob{Mode: "crash", Property: rc.cfg.ID, Profile: rc.cfg.Profile, OnlySeed: &seed, Out: out,
		ReplayDir: filepath.Join(rc.work, "replays"), MinBudget: 150}
	if strings.HasPrefix(sig, "DATA RACE") {
		job.MinBudget = 250 // candidates run inside the analysing process
	}
	extra := []string{"VERIF_PANIC_SIG=" + sig}
	if rc.cfg.PanicIsViolation {
		extra = append(extra, "VERIF_PANIC_IS_VIOLATION=1")
	}
	wo, stderr, err := runWorker(rc, job, extra...)
	if wo == nil {
		return nil, fmt.Errorf("crash analysis worker failed: %v\n%s", err, tail(stderr, 30))
	}
	if len(wo.Violations) == 0 {
		return nil, nil
	}
	return &wo.Violations[0], nil
}

func merge(outs []*WorkerOut) *WorkerOut {
	m := &WorkerOut{Faults: map[string]int{}, Probes: map[string]int{}, OtherProps: map[string]int{}, Inconclusive: map[string]int{}, Extra: map[string]interface{}{}}
	hs, as := map[string]bool{}, map[string]bool{}
	first := true
	for _, o := range outs {
		m.Runs += o.Runs
		m.Steps += o.Steps
		m.SimSeconds += o.SimSeconds
		m.WallS += o.WallS
		m.Leaks += o.Leaks
		m.Accepted += o.Accepted
		m.Started += o.Started
		for k, v := range o.Faults {
			m.Faults[k] += v
		}
		for k, v := range o.Probes {
			m.Probes[k] += v
		}
		for k, v := range o.OtherProps {
			m.OtherProps[k] += v
		}
		for k, v := range o.Inconclusive {
			m.Inconclusive[k] += v
		}
		for _, h := range o.Hashes {
			hs[h] = true
		}
		for _, a := range o.Abstract {
			as[a] = true
		}
		if len(m.Samples) < 2 {
			m.Samples = append(m.Samples, o.Samples...)
		}
		m.Violations = append(m.Violations, o.Violations...)
		m.Errors = append(m.Errors, o.Errors...)
		if first || o.SeedsFirst < m.SeedsFirst {
			m.SeedsFirst = o.SeedsFirst
		}
		if o.SeedsLast > m.SeedsLast {
			m.SeedsLast = o.SeedsLast
		}
		for name, items := range o.Sets {
			if m.Sets == nil {
				m.Sets = map[string][]string{}
			}
			seen := map[string]bool{}
			for _, it := range m.Sets[name] {
				seen[it] = true
			}
			for _, it := range items {
				if !seen[it] {
					seen[it] = true
					m.Sets[name] = append(m.Sets[name], it)
				}
			}
		}
		for k, v := range o.Extra {
			if f, ok := v.(float64); ok {
				if old, ok := m.Extra[k].(float64); ok {
					m.Extra[k] = old + f
				} else {
					m.Extra[k] = f
				}
			} else if _, ok := m.Extra[k]; !ok {
				m.Extra[k] = v
			}
		}
		first = false
	}
	for h := range hs {
		m.Hashes = append(m.Hashes, h)
	}
	for a := range as {
		m.Abstract = append(m.Abstract, a)
	}
	if len(m.Samples) > 2 {
		m.Samples = m.Samples[:2]
	}
	sort.Slice(m.Violations, func(i, j int) bool {
		a, b := m.Violations[i], m.Violations[j]
		if a.V.Rule != b.V.Rule {
			return a.V.Rule < b.V.Rule
		}
		if a.MinOps+a.MinTape != b.MinOps+b.MinTape {
			return a.MinOps+a.MinTape < b.MinOps+b.MinTape
		}
		return a.Seed < b.Seed
	})
	return m
}

// replayFile re-executes a replay file in a fresh process.
// chainSpec: a violation that shows only after the runs that preceded it in the worker process that found it (the code
// under test keeps state in package-level variables - a pool, a cache - which a fresh process does not have). The replay
// is then the last runs of that worker's seed sequence, unminimised, in one fresh process.
type chainSpec struct {
	SeedBase uint64 `json:"seed_base"`
	Worker   int    `json:"worker"`
	Workers  int    `json:"workers"`
	StartK   int    `json:"start_k"`
	Runs     int    `json:"runs"`
	Seed     uint64 `json:"violating_seed"`
}

func runChain(rc *runCtx, prop, profile, rule string, c chainSpec) (bool, error) {
	out := filepath.Join(rc.work, fmt.Sprintf("chain-%d.json", time.Now().UnixNano()))
	job := WorkerJob{Mode: "search", Property: prop, Profile: profile, SeedBase: c.SeedBase, Worker: c.Worker, Workers: c.Workers,
		StartK: c.StartK, MaxRuns: c.Runs, NoMin: true, MaxViol: 64, Out: out, ReplayDir: filepath.Join(rc.work, "replays-chain")}
	wo, stderr, err := runWorker(rc, job)
	defer os.Remove(out)
	if wo == nil {
		return false, fmt.Errorf("chain replay failed: %v\n%s", err, tail(stderr, 20))
	}
	for _, v := range wo.Violations {
		if v.Seed == c.Seed && v.V.Prop == prop && v.V.Rule == rule {
			return true, nil
		}
	}
	return false, nil
}

// tryChain: called when the minimised replay of fv does not show the violation in fresh processes.
func tryChain(rc *runCtx, fv *FoundViolation) bool {
	if rc.nworkers == 0 || fv.Seed < rc.seedBase {
		return false
	}
	off := fv.Seed - rc.seedBase
	c := chainSpec{SeedBase: rc.seedBase, Worker: int(off % uint64(rc.nworkers)), Workers: rc.nworkers, Seed: fv.Seed}
	k := int(off / uint64(rc.nworkers))
	c.StartK = k - 12
	if c.StartK < 0 {
		c.StartK = 0
	}
	c.Runs = k - c.StartK + 1
	for i := 0; i < 2; i++ {
		if ok, err := runChain(rc, fv.V.Prop, rc.cfg.Profile, fv.V.Rule, c); err == nil && ok {
			rf := map[string]interface{}{"property": fv.V.Prop, "rule": fv.V.Rule, "profile": rc.cfg.Profile, "seed": fv.Seed, "message": fv.V.Msg, "chain": c,
				"note": "the minimised single run does not show the violation in a fresh process; it shows after the runs that preceded it in the worker (state kept in package-level variables of the code under test). Replay = these runs, in order, in one fresh process."}
			b, _ := json.MarshalIndent(rf, "", " ")
			_ = os.WriteFile(fv.Replay, b, 0o644)
			return true
		}
	}
	return false
}

func replayFile(rc *runCtx, path string) (reproduced, hashMatch bool, err error) {
	b, err := os.ReadFile(path)
	if err != nil {
		return false, false, err
	}
	var cf struct {
		Property string     `json:"property"`
		Rule     string     `json:"rule"`
		Profile  string     `json:"profile"`
		Chain    *chainSpec `json:"chain"`
	}
	if json.Unmarshal(b, &cf) == nil && cf.Chain != nil {
		ok, err := runChain(rc, cf.Property, cf.Profile, cf.Rule, *cf.Chain)
		return ok, true, err
	}
	var rf struct {
		Property  string `json:"property"`
		Rule      string `json:"rule"`
		TraceHash string `json:"trace_hash"`
		PanicSig  string `json:"panic_signature"`
		Engine    string `json:"engine"`
	}
	if err := json.Unmarshal(b, &rf); err != nil {
		return false, false, err
	}
	if rf.Engine == "B2" {
		ok, err := replayB2(rc, path)
		return ok, true, err
	}
	po := filepath.Join(rc.work, fmt.Sprintf("probe-%d.json", time.Now().UnixNano()))
	cl := po + ".crashlog"
	cmd := exec.Command(rc.bin, "-test.run", "^TestProbe$", "-test.timeout", "0")
	cmd.Env = append(os.Environ(), "VERIF_PROBE="+path, "VERIF_PROBE_OUT="+po, "VERIF_CRASHLOG="+cl, "GOMAXPROCS=1", "GOGC=off", "GORACE=halt_on_error=0 history_size=3")
	cmd.Dir = verifDir
	var stderr strings.Builder
	cmd.Stderr = &stderr
	cmd.Stdout = &stderr
	runErr := cmd.Run()
	defer os.Remove(po)
	defer os.Remove(cl)
	var viol []Violation
	hash := ""
	if pb, e := os.ReadFile(po); e == nil {
		var p struct {
			Violations []Violation `json:"violations"`
			Hash       string      `json:"hash"`
		}
		_ = json.Unmarshal(pb, &p)
		viol, hash = p.Violations, p.Hash
	} else if cb, e := os.ReadFile(cl); e == nil {
		var c struct {
			Violations []Violation `json:"violations"`
		}
		_ = json.Unmarshal(cb, &c)
		viol = c.Violations
	} else if runErr != nil && panicSignature(stderr.String()) == "" {
		return false, false, fmt.Errorf("probe failed: %v\n%s", runErr, tail(stderr.String(), 20))
	}
	if rf.PanicSig != "" {
		for _, got := range sig.All(stderr.String()) {
			if got == rf.PanicSig {
				return true, true, nil
			}
		}
		return false, true, nil
	}
	for _, v := range viol {
		if v.Prop == rf.Property && v.Rule == rf.Rule {
			return true, hash == rf.TraceHash || hash == "", nil
		}
	}
	return false, false, nil
}

func matchKnown(rc *runCtx, fv FoundViolation) *KnownFinding {
	b, err := os.ReadFile(fv.Replay)
	if err != nil {
		return nil
	}
	for i := range rc.known.Findings {
		k := &rc.known.Findings[i]
		if k.Status != "open" || k.Property != fv.V.Prop || k.Rule != fv.V.Rule {
			continue
		}
		all := true
		for _, re := range k.Signature {
			if ok, _ := regexp.Match(re, b); !ok {
				all = false
				break
			}
		}
		if all {
			return k
		}
	}
	return nil
}

func replayCmd(path string) int {
	b, err := os.ReadFile(path)
	if err != nil {
		die2("%v", err)
	}
	var rf struct {
		Property string `json:"property"`
		Engine   string `json:"engine"`
	}
	_ = json.Unmarshal(b, &rf)
	cfg, ok := props[rf.Property]
	if !ok {
		die2("replay file names unknown property %q", rf.Property)
	}
	rc := &runCtx{cfg: cfg, t0: time.Now()}
	rc.work = filepath.Join(verifDir, "work", fmt.Sprintf("replay-%d", os.Getpid()))
	_ = os.MkdirAll(rc.work, 0o755)
	defer os.RemoveAll(rc.work)
	rc.bin = filepath.Join(rc.work, "engine.test")
	if err := prepareTree(rc.work); err != nil {
		fmt.Fprintln(os.Stderr, err)
		return 2
	}
	if err := build(cfg.Pkg, rc.bin, cfg.Race); err != nil {
		fmt.Fprintln(os.Stderr, err)
		return 2
	}
	abs, _ := filepath.Abs(path)
	ok2, hashOK, err := replayFile(rc, abs)
	if err != nil {
		fmt.Fprintln(os.Stderr, err)
		return 2
	}
	if ok2 {
		fmt.Printf("replay reproduces the violation (trace hash identical: %v)\nVIOLATION property=%s replay=%s\n", hashOK, rf.Property, abs)
		return 1
	}
	fmt.Println("replay does not reproduce the violation on this tree")
	return 0
}

// ---------------------------------------------------------------------------
// evidence

func writeEvidence(rc *runCtx, m *WorkerOut, workers int, deadline float64, nviol, aborted int, knownSeen map[string]bool, crashes int) {
	wall := time.Since(rc.t0).Seconds()
	var samples []interface{}
	for _, s := range m.Samples {
		var v interface{}
		_ = json.Unmarshal(s, &v)
		samples = append(samples, v)
	}
	if len(samples) == 0 {
		samples = append(samples, "no non-trivial run in this batch")
	}
	perHour := 0.0
	if wall > 0 {
		perHour = float64(m.Runs) / wall * 3600
	}
	zero := []string{}
	for k, v := range m.Probes {
		if v == 0 {
			zero = append(zero, k)
		}
	}
	known := []string{}
	for k := range knownSeen {
		known = append(known, k)
	}
	sort.Strings(known)
	cov := map[string]interface{}{
		"evaluations":         m.Runs,
		"distinct_nontrivial": len(m.Hashes),
		"rule":                rc.cfg.Rule,
		"samples":             samples,
		"simulated_runs":      m.Runs,
		"runs_per_hour":       perHour,
		"seeds":               map[string]interface{}{"VERIF_SEED": rc.seed, "first": m.SeedsFirst, "last": m.SeedsLast, "derivation": "run seed = VERIF_SEED*1000003 + k; odd seeds run with fault injection, even seeds fault-free"},
		"steps_executed":      m.Steps,
		"simulated_seconds":   m.SimSeconds,
		"faults_fired":        m.Faults,
		"probes_hit":          m.Probes,
		"distinct_abstract_states": len(m.Abstract),
		"abstract_state_measure":   "per pipeline <running, waiting, canceled-while-waiting, finished, canceled> job counts, over all steps of all runs",
		"jobs_accepted":       m.Accepted,
		"jobs_started":        m.Started,
		"workers":             workers,
		"search_seconds_per_worker": deadline,
		"real_components":     rc.cfg.Real,
		"stubbed_components":  rc.cfg.Stubbed,
		"violations_of_other_properties_seen": m.OtherProps,
		"inconclusive_runs":   m.Inconclusive,
		"runs_ended_by_panic": crashes,
		"aborted_by_other_defect": aborted,
		"teardown_leaks":      m.Leaks,
		"known_findings_seen": known,
		"exhaustive":          false,
	}
	for k, v := range m.Extra {
		cov[k] = v
	}
	for name, items := range m.Sets {
		sort.Strings(items)
		cov[name+"_reached"] = len(items)
		ex := items
		if len(ex) > 12 {
			ex = ex[:12]
		}
		cov[name+"_examples"] = ex
	}
	ev := map[string]interface{}{
		"property_id": rc.cfg.ID,
		"tier":        rc.tier,
		"seed":        rc.seed,
		"level":       rc.cfg.Level,
		"coverage":    cov,
		"assumptions": rc.cfg.Assume,
		"wall_s":      wall,
		"violations":  nviol,
	}
	b, _ := json.MarshalIndent(ev, "", " ")
	path := filepath.Join(verifDir, "evidence", rc.cfg.ID+".json")
	if os.Getenv("VERIF_REPO") != "" {
		// a tree other than /repo was checked (development aid): that is not evidence about /repo
		_ = os.MkdirAll(filepath.Join(verifDir, "work", "evidence-other-tree"), 0o755)
		path = filepath.Join(verifDir, "work", "evidence-other-tree", rc.cfg.ID+".json")
	}
	if err := os.WriteFile(path, b, 0o644); err != nil {
		die2("writing evidence: %v", err)
	}
}


// ---------------------------------------------------------------------------
// self-tests of the machinery (DESIGN §7)

// selftest: determinism of the simulator — the same seeds in fresh processes at
// GOMAXPROCS 1, 4 and 16 must give identical trace hashes.
func selftest() int {
	work := filepath.Join(verifDir, "work", fmt.Sprintf("selftest-%d", os.Getpid()))
	_ = os.MkdirAll(work, 0o755)
	defer os.RemoveAll(work)
	bin := filepath.Join(work, "engine.test")
	if err := prepareTree(work); err != nil {
		fmt.Fprintln(os.Stderr, err)
		return 2
	}
	if err := build("./sim", bin, false); err != nil {
		fmt.Fprintln(os.Stderr, err)
		return 2
	}
	// stub conformance (DESIGN §2.5): the stub task runner against the real taskctl.TaskRunner
	{
		cmd := exec.Command(bin, "-test.run", "^TestStubConformance$", "-test.v")
		cmd.Env = append(os.Environ(), "VERIF_CONFORMANCE=1")
		cmd.Dir = verifDir
		b, err := cmd.CombinedOutput()
		if err != nil || !strings.Contains(string(b), "--- PASS: TestStubConformance") {
			fmt.Fprintf(os.Stderr, "selftest: stub conformance FAILED\n%s\n", b)
			return 2
		}
		fmt.Printf("selftest stub conformance: %d scenarios agree with taskctl.TaskRunner\n", strings.Count(string(b), "conformance "))
	}
	n := 8
	if s := os.Getenv("VERIF_SELFTEST_SEEDS"); s != "" {
		n, _ = strconv.Atoi(s)
	}
	bad := 0
	total := 0
	type res struct {
		key string
		m   map[string]string
	}
	var mu sync.Mutex
	var wg sync.WaitGroup
	results := map[string][]res{}
	for _, prof := range []string{"C01", "C03", "C04", "C08", "C09", "C10", "C11", "C12", "C14", "C15", "C16", "C17"} {
		for _, procs := range []string{"1", "4", "16"} {
			for rep := 0; rep < 2; rep++ {
				wg.Add(1)
				go func(prof, procs string, rep int) {
					defer wg.Done()
					out := filepath.Join(work, fmt.Sprintf("h-%s-%s-%d.json", prof, procs, rep))
					job := WorkerJob{Mode: "hashes", Profile: prof, Property: prof, SeedBase: 7_000_000, MaxRuns: n, Out: out}
					spec, _ := json.Marshal(job)
					cmd := exec.Command(bin, "-test.run", "^TestWorker$", "-test.timeout", "0")
					cmd.Env = append(os.Environ(), "VERIF_JOB="+string(spec), "GOMAXPROCS="+procs)
					cmd.Dir = verifDir
					if b, err := cmd.CombinedOutput(); err != nil {
						fmt.Fprintf(os.Stderr, "selftest worker failed: %v\n%s\n", err, tail(string(b), 20))
					}
					var m map[string]string
					if b, err := os.ReadFile(out); err == nil {
						_ = json.Unmarshal(b, &m)
					}
					mu.Lock()
					results[prof] = append(results[prof], res{procs + "/" + strconv.Itoa(rep), m})
					mu.Unlock()
				}(prof, procs, rep)
			}
		}
	}
	wg.Wait()
	for prof, rs := range results {
		if len(rs) == 0 || rs[0].m == nil {
			fmt.Fprintf(os.Stderr, "selftest: no result for profile %s\n", prof)
			return 2
		}
		for seed, h := range rs[0].m {
			total++
			for _, r := range rs[1:] {
				if r.m == nil || r.m[seed] != h {
					bad++
					fmt.Fprintf(os.Stderr, "selftest: NONDETERMINISM profile %s seed %s: %s (%s) vs %s (%s)\n", prof, seed, h, rs[0].key, r.m[seed], r.key)
					break
				}
			}
		}
	}
	fmt.Printf("selftest determinism: %d seeds (12 profiles) x 6 processes (GOMAXPROCS 1/4/16, twice each), %d diverged\n", total, bad)
	if bad > 0 {
		return 2
	}
	return 0
}
