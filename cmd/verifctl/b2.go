package main

import (
	"bufio"
	"encoding/json"
	"fmt"
	"os"
	"os/exec"
	"path/filepath"
	"regexp"
	"strings"
	"sync"
	"sync/atomic"
)

// Engine B2 (DESIGN §5 C09): the real process under strace, SIGKILL injected at
// every syscall of the save sequence, ENOSPC at every write.

type b2Spec struct {
	Tag  int `json:"tag"`
	Jobs int `json:"jobs"`
	Pad  int `json:"pad"`
}

type b2Replay struct {
	Property string   `json:"property"`
	Rule     string   `json:"rule"`
	Message  string   `json:"message"`
	Engine   string   `json:"engine"`
	Spec     []b2Spec `json:"spec"`
	Inject   string   `json:"inject"` // kill | enospc
	K        int      `json:"k"`
	Stdout   string   `json:"helper_stdout"`
	Loaded   string   `json:"loaded"`
}

const b2Set = "openat,write,close,rename,renameat,renameat2,unlink,unlinkat,ftruncate,fsync,fdatasync,link,linkat"

var syscallLine = regexp.MustCompile(`^(\w+)\(`)

// b2KillsFired counts injected SIGKILLs that really ended the helper (a fault that is configured
// but never fires tests nothing).
var b2KillsFired atomic.Int64

type b2Result struct {
	Evaluations int
	Points      map[string]int
	Samples     []interface{}
	Violations  []FoundViolation
}

func b2Sequences(tier string) [][]b2Spec {
	seqs := [][]b2Spec{
		{{1, 1, 0}, {2, 3, 20000}, {3, 0, 0}},
		{{4, 2, 5000}},
	}
	if tier == "thorough" {
		seqs = append(seqs,
			[]b2Spec{{5, 20, 100000}, {6, 1, 0}},
			[]b2Spec{{7, 0, 0}, {8, 5, 300}, {9, 5, 300}, {10, 1, 70000}},
			[]b2Spec{{11, 8, 4096}, {12, 8, 4095}, {13, 8, 4097}},
		)
	}
	return seqs
}

func buildHelper(rc *runCtx) (string, error) {
	out := filepath.Join(rc.work, "storehelper")
	args := []string{"build", "-o", out}
	if modFile != "" {
		args = append(args, "-modfile="+modFile)
	}
	args = append(args, "./cmd/storehelper")
	cmd := exec.Command(goTool(), args...)
	cmd.Dir = verifDir
	cmd.Env = goEnv()
	if b, err := cmd.CombinedOutput(); err != nil {
		return "", fmt.Errorf("building storehelper: %v\n%s", err, b)
	}
	return out, nil
}

func helperOut(helper string, args ...string) (string, error) {
	cmd := exec.Command(helper, args...)
	b, err := cmd.Output()
	return string(b), err
}

// b2One runs the save sequence with one injection and judges the outcome.
// It returns the violated rule ("" = none), a message, the helper's stdout and the load result.
// inject is "none", "enospc" (k-th write fails) or "kill:<syscall>" (the k-th invocation of that syscall is
// met with SIGKILL on entry). strace counts "when=" separately for every syscall of a set, so one syscall is
// named per run.
func b2One(helper, dir, specFile string, sums map[int]string, empty string, inject string, k int) (rule, msg, stdout, loaded string, err error) {
	_ = os.RemoveAll(dir)
	args := []string{"-o", "/dev/null"}
	switch {
	case strings.HasPrefix(inject, "kill:"):
		sc := strings.TrimPrefix(inject, "kill:")
		args = append(args, "-e", "trace="+sc, "-e", fmt.Sprintf("inject=%s:signal=SIGKILL:when=%d", sc, k))
	case inject == "enospc":
		args = append(args, "-e", "trace=write", "-e", fmt.Sprintf("inject=write:error=ENOSPC:when=%d", k))
	default:
		args = append(args, "-e", "trace="+b2Set)
	}
	logFile := dir + ".protocol"
	args = append(args, helper, "save", dir, specFile, logFile)
	cmd := exec.Command("strace", args...)
	runErr := cmd.Run() // a killed helper is expected
	if strings.HasPrefix(inject, "kill:") && runErr != nil {
		b2KillsFired.Add(1)
	}
	pb, _ := os.ReadFile(logFile)
	_ = os.Remove(logFile)
	stdout = string(pb)
	lo, lerr := helperOut(helper, "load", dir)
	if lerr != nil {
		return "", "", stdout, "", fmt.Errorf("loader process failed: %v", lerr)
	}
	loaded = strings.TrimSpace(lo)
	lastSaved, lastBegin := -1, -1
	prevState := empty
	sc := bufio.NewScanner(strings.NewReader(stdout))
	for sc.Scan() {
		f := strings.Fields(sc.Text())
		if len(f) < 2 {
			continue
		}
		var n int
		fmt.Sscan(f[1], &n)
		switch f[0] {
		case "BEGIN":
			lastBegin = n
		case "SAVED":
			lastSaved = n
		case "AFTER":
			// state right after save n returned, as seen by a Load in the same process
			want := prevState
			if lastSaved == n {
				want = sums[n]
			}
			if len(f) < 3 || f[2] == "LOADERR" {
				return "r1", fmt.Sprintf("after save %d returned, the store does not load: %s", n, sc.Text()), stdout, loaded, nil
			}
			if f[2] != want {
				r := "r2"
				if lastSaved != n {
					r = "r3"
				}
				return r, fmt.Sprintf("after save %d returned (%s), Load gives %s, expected %s", n, map[bool]string{true: "ok", false: "with an error"}[lastSaved == n], describe(f[2], sums, empty), describe(want, sums, empty)), stdout, loaded, nil
			}
			prevState = f[2]
		}
	}
	if strings.HasPrefix(loaded, "LOADERR") || !strings.HasPrefix(loaded, "LOADED ") {
		return "r1", fmt.Sprintf("%s at syscall %d: the store left behind does not load: %s", inject, k, loaded), stdout, loaded, nil
	}
	got := strings.Fields(loaded)[1]
	allowed := map[string]bool{}
	if lastSaved >= 0 {
		allowed[sums[lastSaved]] = true
	} else {
		allowed[empty] = true
	}
	if lastBegin > lastSaved && strings.HasPrefix(inject, "kill:") {
		allowed[sums[lastBegin]] = true // renamed into place but not yet acknowledged
	}
	if inject == "enospc" {
		allowed = map[string]bool{prevState: true}
	}
	if !allowed[got] {
		return "r1", fmt.Sprintf("%s at syscall %d (last acknowledged save %d, last begun %d): the store left behind loads as %s", inject, k, lastSaved, lastBegin, describe(got, sums, empty)), stdout, loaded, nil
	}
	return "", "", stdout, loaded, nil
}

func describe(sum string, sums map[int]string, empty string) string {
	if sum == empty {
		return "the empty state"
	}
	for k, s := range sums {
		if s == sum {
			return fmt.Sprintf("snapshot %d", k)
		}
	}
	return "data that is no snapshot ever passed to a save (" + sum + ")"
}

func runB2(rc *runCtx) (*b2Result, error) {
	helper, err := buildHelper(rc)
	if err != nil {
		return nil, err
	}
	if _, err := exec.LookPath("strace"); err != nil {
		return nil, fmt.Errorf("strace not found")
	}
	res := &b2Result{Points: map[string]int{}}
	base, err := os.MkdirTemp("/dev/shm", "verif-b2-")
	if err != nil {
		base, err = os.MkdirTemp("", "verif-b2-")
		if err != nil {
			return nil, err
		}
	}
	defer os.RemoveAll(base)
	for si, seq := range b2Sequences(rc.tier) {
		specFile := filepath.Join(base, fmt.Sprintf("spec%d.json", si))
		sb, _ := json.Marshal(seq)
		_ = os.WriteFile(specFile, sb, 0o644)
		so, err := helperOut(helper, "sums", base, specFile)
		if err != nil {
			return nil, fmt.Errorf("helper sums: %v", err)
		}
		sums := map[int]string{}
		empty := ""
		for _, l := range strings.Split(so, "\n") {
			f := strings.Fields(l)
			if len(f) == 2 && f[0] == "EMPTY" {
				empty = f[1]
			}
			if len(f) == 3 && f[0] == "SUM" {
				var k int
				fmt.Sscan(f[1], &k)
				sums[k] = f[2]
			}
		}
		// dry run: where does the save sequence start, how many syscalls are there
		logf := filepath.Join(base, "dry.log")
		dry := exec.Command("strace", "-o", logf, "-e", "trace="+b2Set, helper, "save", filepath.Join(base, "dry"), specFile, filepath.Join(base, "dry.protocol"))
		if err := dry.Run(); err != nil {
			return nil, fmt.Errorf("dry run under strace failed: %v", err)
		}
		lb, _ := os.ReadFile(logf)
		n, first, nw, firstW := 0, 0, 0, 0
		perCall := map[string]int{}
		type point struct {
			inject string
			k      int
		}
		var pts []point
		for _, l := range strings.Split(string(lb), "\n") {
			m := syscallLine.FindStringSubmatch(l)
			if m == nil {
				continue
			}
			n++
			perCall[m[1]]++
			if m[1] == "write" {
				nw++
			}
			if first == 0 && strings.Contains(l, "dry.protocol") {
				// the protocol file is opened right before the save sequence starts
				first, firstW = n+1, nw+1
				continue
			}
			if first != 0 {
				pts = append(pts, point{"kill:" + m[1], perCall[m[1]]})
			}
		}
		if first == 0 {
			return nil, fmt.Errorf("dry run: cannot find the start of the save sequence in the strace log")
		}
		// fault-free run must be clean (otherwise nothing below means anything)
		if rule, msg, _, _, err := b2One(helper, filepath.Join(base, "clean"), specFile, sums, empty, "none", 0); err != nil || rule != "" {
			if err != nil {
				return nil, err
			}
			res.Violations = append(res.Violations, b2Violation(rc, seq, "none", 0, rule, msg, "", ""))
			continue
		}
		nkill := len(pts)
		for k := firstW; k <= nw; k++ {
			pts = append(pts, point{"enospc", k})
		}
		res.Points[fmt.Sprintf("sequence%d_kill_points", si)] = nkill
		res.Points[fmt.Sprintf("sequence%d_enospc_points", si)] = nw + 1 - firstW
		var mu sync.Mutex
		var wg sync.WaitGroup
		sem := make(chan struct{}, 16)
		var firstErr error
		for pi, pt := range pts {
			wg.Add(1)
			sem <- struct{}{}
			go func(pi int, pt point) {
				defer wg.Done()
				defer func() { <-sem }()
				dir := filepath.Join(base, fmt.Sprintf("s%d-p%d", si, pi))
				rule, msg, stdout, loaded, err := b2One(helper, dir, specFile, sums, empty, pt.inject, pt.k)
				_ = os.RemoveAll(dir)
				mu.Lock()
				defer mu.Unlock()
				res.Evaluations++
				if err != nil && firstErr == nil {
					firstErr = err
				}
				if rule != "" {
					res.Violations = append(res.Violations, b2Violation(rc, seq, pt.inject, pt.k, rule, msg, stdout, loaded))
				}
				if len(res.Samples) < 2 && strings.HasPrefix(pt.inject, "kill:") && pi == nkill/2 {
					res.Samples = append(res.Samples, map[string]interface{}{"engine": "B2", "sequence": seq, "inject": pt.inject, "at_syscall": pt.k, "helper_stdout": stdout, "store_left_behind": loaded})
				}
			}(pi, pt)
		}
		wg.Wait()
		if firstErr != nil {
			return nil, firstErr
		}
	}
	res.Points["kills_that_ended_the_helper"] = int(b2KillsFired.Load())
	total := 0
	for k, v := range res.Points {
		if strings.HasSuffix(k, "kill_points") {
			total += v
		}
	}
	if total > 0 && b2KillsFired.Load() < int64(total)*8/10 {
		return nil, fmt.Errorf("only %d of %d injected SIGKILLs ended the helper process: the fault injection does not work as intended", b2KillsFired.Load(), total)
	}
	return res, nil
}

func b2Violation(rc *runCtx, seq []b2Spec, inject string, k int, rule, msg, stdout, loaded string) FoundViolation {
	rf := b2Replay{Property: "C09", Rule: rule, Message: msg, Engine: "B2", Spec: seq, Inject: inject, K: k, Stdout: stdout, Loaded: loaded}
	dir := filepath.Join(rc.work, "replays")
	_ = os.MkdirAll(dir, 0o755)
	path := filepath.Join(dir, fmt.Sprintf("C09-B2-%s-%s-%d-%d.json", rule, inject, seq[0].Tag, k))
	b, _ := json.MarshalIndent(rf, "", " ")
	_ = os.WriteFile(path, b, 0o644)
	return FoundViolation{Seed: uint64(k), V: Violation{Prop: "C09", Rule: rule, Msg: "B2: " + msg}, Replay: path, Reproduce: true}
}

// replayB2 re-executes one injection from a B2 replay file.
func replayB2(rc *runCtx, path string) (bool, error) {
	b, err := os.ReadFile(path)
	if err != nil {
		return false, err
	}
	var rf b2Replay
	if err := json.Unmarshal(b, &rf); err != nil {
		return false, err
	}
	helper, err := buildHelper(rc)
	if err != nil {
		return false, err
	}
	base, err := os.MkdirTemp("/dev/shm", "verif-b2r-")
	if err != nil {
		return false, err
	}
	defer os.RemoveAll(base)
	specFile := filepath.Join(base, "spec.json")
	sb, _ := json.Marshal(rf.Spec)
	_ = os.WriteFile(specFile, sb, 0o644)
	so, err := helperOut(helper, "sums", base, specFile)
	if err != nil {
		return false, err
	}
	sums := map[int]string{}
	empty := ""
	for _, l := range strings.Split(so, "\n") {
		f := strings.Fields(l)
		if len(f) == 2 && f[0] == "EMPTY" {
			empty = f[1]
		}
		if len(f) == 3 && f[0] == "SUM" {
			var k int
			fmt.Sscan(f[1], &k)
			sums[k] = f[2]
		}
	}
	rule, _, _, _, err := b2One(helper, filepath.Join(base, "d"), specFile, sums, empty, rf.Inject, rf.K)
	if err != nil {
		return false, err
	}
	return rule == rf.Rule, nil
}
