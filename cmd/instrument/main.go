// instrument rewrites a scratch copy of Flowpack/prunner so that every
// acquisition of the runner lock is preceded by a simulation hook point, also
// where a changed version of the code takes the lock in a place the committed
// hooks do not know about (DESIGN §3, "automatic yield insertion").
//
// usage: instrument <dir of the copy>
//
// For every statement `X.mx.Lock()` / `X.mx.RLock()` in the root package that is
// not directly preceded by a verifhook.Yield call it inserts
// `verifhook.Yield("auto.W:<func>#<n>", X)` (auto.R for RLock) before it.
//
// Every acquisition is followed by `verifhook.Skip("auto.lockedW", X)` (lockedR)
// and every release by `verifhook.Skip("auto.unlocked", X)` (notifications, they
// never park), for `defer X.mx.Unlock()` as a defer registered just before it. With both the driver knows at every moment which
// goroutine holds the runner lock, so a goroutine that blocks for ever while
// holding it is reported as a deadlock of the system instead of hanging the
// simulator (DESIGN §12.2).
package main

import (
	"bytes"
	"fmt"
	"go/ast"
	"go/format"
	"go/parser"
	"go/token"
	"os"
	"path/filepath"
	"strconv"
	"strings"
)

func isYield(s ast.Stmt) bool {
	es, ok := s.(*ast.ExprStmt)
	if !ok {
		return false
	}
	call, ok := es.X.(*ast.CallExpr)
	if !ok {
		return false
	}
	sel, ok := call.Fun.(*ast.SelectorExpr)
	if !ok {
		return false
	}
	id, ok := sel.X.(*ast.Ident)
	return ok && id.Name == "verifhook" && sel.Sel.Name == "Yield"
}

// lockCall returns (receiver of .mx, "W"/"R") if s is `recv.mx.Lock()` or `recv.mx.RLock()`.
func lockCall(s ast.Stmt) (ast.Expr, string) {
	es, ok := s.(*ast.ExprStmt)
	if !ok {
		return nil, ""
	}
	call, ok := es.X.(*ast.CallExpr)
	if !ok || len(call.Args) != 0 {
		return nil, ""
	}
	sel, ok := call.Fun.(*ast.SelectorExpr)
	if !ok {
		return nil, ""
	}
	kind := ""
	switch sel.Sel.Name {
	case "Lock":
		kind = "W"
	case "RLock":
		kind = "R"
	default:
		return nil, ""
	}
	mx, ok := sel.X.(*ast.SelectorExpr)
	if !ok || mx.Sel.Name != "mx" {
		return nil, ""
	}
	return mx.X, kind
}

// unlockCall reports whether call is `recv.mx.Unlock()` or `recv.mx.RUnlock()`.
func unlockCall(call *ast.CallExpr) bool {
	if call == nil || len(call.Args) != 0 {
		return false
	}
	sel, ok := call.Fun.(*ast.SelectorExpr)
	if !ok || (sel.Sel.Name != "Unlock" && sel.Sel.Name != "RUnlock") {
		return false
	}
	mx, ok := sel.X.(*ast.SelectorExpr)
	return ok && mx.Sel.Name == "mx"
}

// unlockRecv returns X of `X.mx.Unlock()`.
func unlockRecv(call *ast.CallExpr) ast.Expr {
	return call.Fun.(*ast.SelectorExpr).X.(*ast.SelectorExpr).X
}

func note(what string, recv ast.Expr) *ast.CallExpr {
	return &ast.CallExpr{
		Fun:  &ast.SelectorExpr{X: ast.NewIdent("verifhook"), Sel: ast.NewIdent("Skip")},
		Args: []ast.Expr{&ast.BasicLit{Kind: token.STRING, Value: strconv.Quote(what)}, recv},
	}
}

func main() {
	if len(os.Args) != 2 {
		fmt.Fprintln(os.Stderr, "usage: instrument <dir>")
		os.Exit(2)
	}
	dir := os.Args[1]
	ents, err := os.ReadDir(dir)
	if err != nil {
		fmt.Fprintln(os.Stderr, err)
		os.Exit(2)
	}
	inserted, notes := 0, 0
	for _, e := range ents {
		name := e.Name()
		if e.IsDir() || !strings.HasSuffix(name, ".go") || strings.HasSuffix(name, "_test.go") || strings.HasSuffix(name, "_verif.go") {
			continue
		}
		path := filepath.Join(dir, name)
		fset := token.NewFileSet()
		f, err := parser.ParseFile(fset, path, nil, parser.ParseComments)
		if err != nil {
			fmt.Fprintln(os.Stderr, err)
			os.Exit(2)
		}
		changed := false
		for _, d := range f.Decls {
			fn, ok := d.(*ast.FuncDecl)
			if !ok || fn.Body == nil {
				continue
			}
			n := 0
			var rewrite func(list []ast.Stmt) []ast.Stmt
			visit := func(node ast.Node) bool {
				switch b := node.(type) {
				case *ast.BlockStmt:
					b.List = rewrite(b.List)
				case *ast.CaseClause:
					b.Body = rewrite(b.Body)
				case *ast.CommClause:
					b.Body = rewrite(b.Body)
				}
				return true
			}
			rewrite = func(list []ast.Stmt) []ast.Stmt {
				var out []ast.Stmt
				for i, s := range list {
					if recv, kind := lockCall(s); recv != nil {
						if i == 0 || !isYield(list[i-1]) {
							n++
							label := "auto." + kind + ":" + fn.Name.Name + "#" + strconv.Itoa(n)
							out = append(out, &ast.ExprStmt{X: &ast.CallExpr{
								Fun:  &ast.SelectorExpr{X: ast.NewIdent("verifhook"), Sel: ast.NewIdent("Yield")},
								Args: []ast.Expr{&ast.BasicLit{Kind: token.STRING, Value: strconv.Quote(label)}, recv},
							}})
							changed = true
							inserted++
						}
					}
					if ds, ok := s.(*ast.DeferStmt); ok && unlockCall(ds.Call) {
						// registered before, therefore run after the unlock
						out = append(out, &ast.DeferStmt{Call: note("auto.unlocked", unlockRecv(ds.Call))})
						changed = true
						notes++
					}
					out = append(out, s)
					if recv, kind := lockCall(s); recv != nil {
						out = append(out, &ast.ExprStmt{X: note("auto.locked"+kind, recv)})
						changed = true
						notes++
					}
					if es, ok := s.(*ast.ExprStmt); ok {
						if call, ok := es.X.(*ast.CallExpr); ok && unlockCall(call) {
							out = append(out, &ast.ExprStmt{X: note("auto.unlocked", unlockRecv(call))})
							changed = true
							notes++
						}
					}
				}
				return out
			}
			ast.Inspect(fn.Body, visit)
		}
		if !changed {
			continue
		}
		has := false
		for _, im := range f.Imports {
			if im.Path.Value == `"github.com/Flowpack/prunner/verifhook"` {
				has = true
			}
		}
		if !has {
			// add the import to the first import declaration
			for _, d := range f.Decls {
				if gd, ok := d.(*ast.GenDecl); ok && gd.Tok == token.IMPORT {
					gd.Specs = append(gd.Specs, &ast.ImportSpec{Path: &ast.BasicLit{Kind: token.STRING, Value: `"github.com/Flowpack/prunner/verifhook"`}})
					break
				}
			}
		}
		var buf bytes.Buffer
		if err := format.Node(&buf, fset, f); err != nil {
			fmt.Fprintln(os.Stderr, err)
			os.Exit(2)
		}
		if err := os.WriteFile(path, buf.Bytes(), 0o644); err != nil {
			fmt.Fprintln(os.Stderr, err)
			os.Exit(2)
		}
	}
	fmt.Printf("instrument: %d hook points inserted, %d unlock notifications\n", inserted, notes)
}
