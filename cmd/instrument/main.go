// instrument rewrites a scratch copy of Flowpack/prunner so that every
// acquisition of the runner lock is preceded by a simulation hook point, also
// where a changed version of the code takes the lock in a place the committed
// hooks do not know about (DESIGN §3, "automatic yield insertion").
//
// usage: instrument <dir of the copy>
//
// For every statement `L.Lock()` / `L.RLock()` of the root package, where L is a
// field or variable whose name says it is a mutex (mx, mu, …Mutex, …Lock; the
// runner's `r.mx` today, any lock a changed version adds):
//
//   - a `verifhook.Yield` directly in front of it gets two more arguments,
//     "\x00lockW" (lockR) and &L, so that the simulator knows which lock the
//     goroutine parked there is about to take and in which mode;
//   - if there is none, `verifhook.Yield("auto.W:<func>#<n>", X, "\x00lockW", &L)`
//     is inserted (X = what L is a field of);
//   - it is followed by `verifhook.Skip("auto.lockedW", X, &L)`, and every
//     `L.Unlock()` / `L.RUnlock()` by `verifhook.Skip("auto.unlocked", X, &L)`
//     (`defer L.Unlock()`: a defer registered just before it, so it runs after).
//     These notifications never park; they run on the goroutine itself and give
//     the driver the exact set of holders of every lock. A goroutine that blocks
//     for ever while holding one is then reported as a deadlock of the system
//     instead of hanging the simulator (DESIGN §12.2).
package main

import (
	"bytes"
	"fmt"
	"go/ast"
	"go/format"
	"go/parser"
	"go/token"
	"os"
	"path/filepath"
	"regexp"
	"strconv"
	"strings"
)

func isYield(s ast.Stmt) bool {
	es, ok := s.(*ast.ExprStmt)
	if !ok {
		return false
	}
	call, ok := es.X.(*ast.CallExpr)
	if !ok {
		return false
	}
	sel, ok := call.Fun.(*ast.SelectorExpr)
	if !ok {
		return false
	}
	id, ok := sel.X.(*ast.Ident)
	return ok && id.Name == "verifhook" && sel.Sel.Name == "Yield"
}

var mutexName = regexp.MustCompile(`(?i)(^|[a-z_])(mx|mu|mutex|lock)$`)

// mutexExpr: is e a field or variable that is named like a mutex? Returns what it is a field of (nil for a variable).
func mutexExpr(e ast.Expr) (owner ast.Expr, ok bool) {
	switch x := e.(type) {
	case *ast.SelectorExpr:
		if id, isID := x.X.(*ast.Ident); isID && id.Name == "verifhook" {
			return nil, false
		}
		if mutexName.MatchString(x.Sel.Name) {
			return x.X, true
		}
	case *ast.Ident:
		if mutexName.MatchString(x.Name) {
			return ast.NewIdent("nil"), true
		}
	}
	return nil, false
}

// lockOp classifies call as L.Lock() "W", L.RLock() "R", L.Unlock()/L.RUnlock() "U".
func lockOp(call *ast.CallExpr) (lock, owner ast.Expr, op string) {
	if call == nil || len(call.Args) != 0 {
		return nil, nil, ""
	}
	sel, ok := call.Fun.(*ast.SelectorExpr)
	if !ok {
		return nil, nil, ""
	}
	switch sel.Sel.Name {
	case "Lock":
		op = "W"
	case "RLock":
		op = "R"
	case "Unlock", "RUnlock":
		op = "U"
	default:
		return nil, nil, ""
	}
	owner, ok = mutexExpr(sel.X)
	if !ok {
		return nil, nil, ""
	}
	return sel.X, owner, op
}

func stmtCall(s ast.Stmt) *ast.CallExpr {
	if es, ok := s.(*ast.ExprStmt); ok {
		if call, ok := es.X.(*ast.CallExpr); ok {
			return call
		}
	}
	return nil
}

func addrOf(e ast.Expr) ast.Expr { return &ast.UnaryExpr{Op: token.AND, X: e} }

func strLit(v string) ast.Expr { return &ast.BasicLit{Kind: token.STRING, Value: strconv.Quote(v)} }

func hookCall(fn string, args ...ast.Expr) *ast.CallExpr {
	return &ast.CallExpr{Fun: &ast.SelectorExpr{X: ast.NewIdent("verifhook"), Sel: ast.NewIdent(fn)}, Args: args}
}

func main() {
	if len(os.Args) != 2 {
		fmt.Fprintln(os.Stderr, "usage: instrument <dir>")
		os.Exit(2)
	}
	inserted, notes := 0, 0
	// the root package and the job store: the two places whose locks goroutines can be parked under (hook points of the
	// simulator sit inside SaveToStore and inside JsonDataStore.Save)
	for _, dir := range []string{os.Args[1], filepath.Join(os.Args[1], "store")} {
		i, n := processDir(dir)
		inserted, notes = inserted+i, notes+n
	}
	fmt.Printf("instrument: %d hook points inserted, %d lock/unlock notifications\n", inserted, notes)
}

func processDir(dir string) (inserted, notes int) {
	ents, err := os.ReadDir(dir)
	if err != nil {
		if os.IsNotExist(err) {
			return 0, 0
		}
		fmt.Fprintln(os.Stderr, err)
		os.Exit(2)
	}
	for _, e := range ents {
		name := e.Name()
		if e.IsDir() || !strings.HasSuffix(name, ".go") || strings.HasSuffix(name, "_test.go") || strings.HasSuffix(name, "_verif.go") {
			continue
		}
		path := filepath.Join(dir, name)
		fset := token.NewFileSet()
		f, err := parser.ParseFile(fset, path, nil, parser.ParseComments)
		if err != nil {
			fmt.Fprintln(os.Stderr, err)
			os.Exit(2)
		}
		changed := false
		for _, d := range f.Decls {
			fn, ok := d.(*ast.FuncDecl)
			if !ok || fn.Body == nil {
				continue
			}
			n := 0
			var rewrite func(list []ast.Stmt) []ast.Stmt
			visit := func(node ast.Node) bool {
				switch b := node.(type) {
				case *ast.BlockStmt:
					b.List = rewrite(b.List)
				case *ast.CaseClause:
					b.Body = rewrite(b.Body)
				case *ast.CommClause:
					b.Body = rewrite(b.Body)
				}
				return true
			}
			rewrite = func(list []ast.Stmt) []ast.Stmt {
				var out []ast.Stmt
				for i, s := range list {
					if ds, ok := s.(*ast.DeferStmt); ok {
						if lock, owner, op := lockOp(ds.Call); op == "U" {
							// registered before, therefore run after the unlock
							out = append(out, &ast.DeferStmt{Call: hookCall("Skip", strLit("auto.unlocked"), owner, addrOf(lock))})
							changed = true
							notes++
						}
					}
					lock, owner, op := lockOp(stmtCall(s))
					if op == "W" || op == "R" {
						marker := strLit("\x00lock" + op)
						if i > 0 && isYield(list[i-1]) {
							y := stmtCall(out[len(out)-1])
							y.Args = append(y.Args, marker, addrOf(lock))
						} else {
							n++
							label := "auto." + op + ":" + fn.Name.Name + "#" + strconv.Itoa(n)
							out = append(out, &ast.ExprStmt{X: hookCall("Yield", strLit(label), owner, marker, addrOf(lock))})
							inserted++
						}
						changed = true
					}
					out = append(out, s)
					switch op {
					case "W", "R":
						out = append(out, &ast.ExprStmt{X: hookCall("Skip", strLit("auto.locked"+op), owner, addrOf(lock))})
						notes++
					case "U":
						out = append(out, &ast.ExprStmt{X: hookCall("Skip", strLit("auto.unlocked"), owner, addrOf(lock))})
						changed = true
						notes++
					}
				}
				return out
			}
			ast.Inspect(fn.Body, visit)
		}
		if !changed {
			continue
		}
		has := false
		for _, im := range f.Imports {
			if im.Path.Value == `"github.com/Flowpack/prunner/verifhook"` {
				has = true
			}
		}
		if !has {
			// add the import to the first import declaration
			for _, d := range f.Decls {
				if gd, ok := d.(*ast.GenDecl); ok && gd.Tok == token.IMPORT {
					gd.Specs = append(gd.Specs, &ast.ImportSpec{Path: &ast.BasicLit{Kind: token.STRING, Value: `"github.com/Flowpack/prunner/verifhook"`}})
					break
				}
			}
		}
		var buf bytes.Buffer
		if err := format.Node(&buf, fset, f); err != nil {
			fmt.Fprintln(os.Stderr, err)
			os.Exit(2)
		}
		if err := os.WriteFile(path, buf.Bytes(), 0o644); err != nil {
			fmt.Fprintln(os.Stderr, err)
			os.Exit(2)
		}
	}
	return inserted, notes
}
