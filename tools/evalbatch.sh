#!/bin/bash
# usage: tools/evalbatch.sh "<outdir-prefix> <prop> [extra props]" ...   e.g. "C01 C01" "C05 C05 C03"
export VERIF_HOME=$(pwd)
for spec in "$@"; do
  set -- $spec
  pre=$1; shift
  for k in 1 2 3; do
    d=/tmp/wt/$pre-out/m$k
    [ -f $d/patch.diff ] || continue
    echo "=== $pre-m$k  ($@)"
    /verif/tools/evalmut.sh $d $pre-m$k "$@"
  done
done
