#!/bin/bash
# usage: tools/evalbatchfile.sh <file with lines "<mutant dir> <seeded id> <prop> [props...]">
export VERIF_HOME=$(pwd)
while read -r d id props; do
  [ -z "$d" ] && continue
  [ -f $d/patch.diff ] || { echo "missing $d"; continue; }
  echo "=== $id  ($props)"
  /verif/tools/evalmut.sh $d $id $props </dev/null
done < "$1"
