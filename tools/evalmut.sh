#!/bin/bash
# usage: tools/evalmut.sh <mutant dir with patch.diff demo_test.go notes.md> <seeded id> <property> [more properties to run]
# 1. confirms in a scratch worktree that the change compiles, passes the existing suite, and that the
#    demonstration fails with it and passes without it;
# 2. applies it to /repo, runs the quick checks of the given properties, reverts /repo;
# 3. stores everything under /verif/seeded/<id>/.
set -u
SRC=$1; ID=$2; shift 2; PROPS="$@"
export GOFLAGS=-mod=mod GOPROXY=off GOSUMDB=off
OUT=/verif/seeded/$ID
mkdir -p $OUT
cp $SRC/patch.diff $OUT/patch.diff
cp $SRC/demo_test.go $OUT/demo_test.go.txt 2>/dev/null
cp $SRC/notes.md $OUT/notes.md 2>/dev/null
if [ "${SKIP_CONFIRM:-0}" = 1 ] && [ -f $OUT/meta.json ] && python3 -c "import json,sys; c=json.load(open('$OUT/meta.json'))['confirmed']; sys.exit(0 if c.get('applies')=='ok' and c.get('existing_suite_with_change')=='ok' else 1)"; then
  # confirmed earlier on the same /repo commit: reuse
  eval $(python3 -c "import json; c=json.load(open('$OUT/meta.json'))['confirmed']; print('res_apply=%s suite=%s demo_with=%s demo_without=%s' % (c['applies'],c['existing_suite_with_change'],c['demo_with_change'],c['demo_without_change']))")
  echo "apply=$res_apply suite_with_change=$suite demo_with_change=$demo_with demo_without_change=$demo_without (confirmed earlier)"
else
WT=/tmp/wt/eval-$ID
git -C /repo worktree remove --force $WT >/dev/null 2>&1
git -C /repo worktree add -q --detach $WT HEAD || exit 2
cd $WT
res_apply=ok; git apply $OUT/patch.diff || res_apply=FAILED
# where does the demo go? first line comment may say; default: package clause decides
pkg=$(grep -m1 '^package ' $OUT/demo_test.go.txt | awk '{print $2}' | sed 's/_test$//')
case "$pkg" in
  prunner) ddir=. ;; store) ddir=store ;; taskctl) ddir=taskctl ;; server) ddir=server ;; definition) ddir=definition ;; app) ddir=app ;; helper) ddir=helper ;; *) ddir=. ;;
esac
suite=ok; (go build ./... && go test -vet=off -count=1 ./... ) > $OUT/suite_with_change.log 2>&1 || suite=FAILED
cp $OUT/demo_test.go.txt $ddir/zz_demo_test.go
demo_with=pass; go test -vet=off -count=1 -run . ./$ddir/ > $OUT/demo_with_change.log 2>&1 || demo_with=fail
# only the demo's own tests matter: rerun just them
names=$(grep -o '^func Test[A-Za-z0-9_]*' $OUT/demo_test.go.txt | sed 's/func //' | paste -sd'|')
demo_with=pass; go test -vet=off -count=1 -run "^($names)\$" ./$ddir/ > $OUT/demo_with_change.log 2>&1 || demo_with=fail
rm -f $ddir/zz_demo_test.go; git checkout -q -- . ; 
cp $OUT/demo_test.go.txt $ddir/zz_demo_test.go
demo_without=pass; go test -vet=off -count=1 -run "^($names)\$" ./$ddir/ > $OUT/demo_without_change.log 2>&1 || demo_without=fail
rm -f $ddir/zz_demo_test.go
cd /; git -C /repo worktree remove --force $WT
echo "apply=$res_apply suite_with_change=$suite demo_with_change=$demo_with demo_without_change=$demo_without"
fi
results=""
if [ "$res_apply" = ok ]; then
  git -C /repo apply $OUT/patch.diff || { echo "cannot apply to /repo"; exit 2; }
  for p in $PROPS; do
    (cd ${VERIF_HOME:-/verif} && VERIF_BUDGET_S=${MUT_BUDGET_S:-10} ./check $p quick > $OUT/check_$p.log 2>&1); rc=$?
    v=$(grep -c '^VIOLATION' $OUT/check_$p.log)
    first=$(grep -m1 '^  C' $OUT/check_$p.log | cut -c1-220)
    echo "check $p: exit=$rc violations=$v $first"
    results="$results{\"property\":\"$p\",\"exit\":$rc,\"violation_lines\":$v},"
  done
  git -C /repo checkout -- .
  git -C /repo clean -fdq   # a change may add files
  git -C /repo status --short
fi
# replay files of seeded violations are scratch: keep one per property in the seeded dir, remove from /verif/replays
for p in $PROPS; do
  for f in $(grep '^VIOLATION' $OUT/check_$p.log 2>/dev/null | sed 's/.*replay=//'); do
    [ -f "$f" ] && { [ -f $OUT/replay_$p.json ] || cp $f $OUT/replay_$p.json; rm -f $f; }
  done
done
python3 - <<PY
import json
def merge(new):
    # results of properties not run this time are kept from the previous evaluation
    try: old=json.load(open("$OUT/meta.json")).get("checks_run",[])
    except Exception: old=[]
    done={c["property"] for c in new}
    return [c for c in old if c["property"] not in done]+new

json.dump({"id":"$ID","breaks_property":"$(echo $PROPS | awk '{print $1}')","source":"written by an independent sub-agent that saw only the property text",
 "needs_to_manifest":open("$OUT/notes.md").read() if __import__('os').path.exists("$OUT/notes.md") else "",
 "confirmed":{"applies":"$res_apply","existing_suite_with_change":"$suite","demo_with_change":"$demo_with","demo_without_change":"$demo_without"},
 "checks_run":merge([${results%,}])},open("$OUT/meta.json","w"),indent=1)
PY
