#!/usr/bin/env python3
"""Rewrites the rule index of DESIGN.md §12.4 (between the rules-table markers) from the violate() calls in sim/*.go."""
import re,glob,collections
rules=collections.OrderedDict()
for f in sorted(glob.glob('/verif/sim/*.go')):
    src=open(f).read()
    for m in re.finditer(r'violate\(\s*"(C\d\d)",\s*(?:"([a-z0-9A-Z]+)"|rule),\s*"((?:[^"\\]|\\.)*)"',src):
        rules.setdefault((m.group(1),m.group(2) or 'r4/r4b'),[]).append(m.group(3))
    prop={'store_engine.go':'C09','reload_engine.go':'C17','proc_engine.go':'C20','late_engine.go':'C19'}.get(f.split('/')[-1])
    if prop:
        for m in re.finditer(r'violate\(\s*(?:"([a-z0-9]+)"|rule),\s*"((?:[^"\\]|\\.)*)"',src):
            rules.setdefault((prop,m.group(1) or 'r1/r2'),[]).append(m.group(2))
rows=[]
for (p,r),msgs in sorted(rules.items()):
    msg=re.sub(r'^(step %d(?: \(%s\))?: |%s: ?|%s)','',msgs[0]).replace('|','/')
    rows.append(f'| {p} | {r} | {msg[:200]} |')
t='| property | rule | what it reports (first message template) |\n|---|---|---|\n'+'\n'.join(rows)+'\n'
p='/verif/DESIGN.md'; s=open(p).read()
a='<!-- rules-table-begin -->'; b='<!-- rules-table-end -->'
i=s.index(a)+len(a); j=s.index(b)
open(p,'w').write(s[:i]+'\n'+t+s[j:])
print(len(rows),'rules')
