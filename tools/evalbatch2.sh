#!/bin/bash
# usage: tools/evalbatch2.sh "<mutant dir> <seeded id> <prop> [props...]" ...
export VERIF_HOME=$(pwd)
for spec in "$@"; do
  set -- $spec
  d=$1; id=$2; shift 2
  [ -f $d/patch.diff ] || { echo "missing $d"; continue; }
  echo "=== $id  ($@)"
  /verif/tools/evalmut.sh $d $id "$@"
done
