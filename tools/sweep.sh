#!/bin/bash
# usage: tools/sweep.sh <tier> <seed> [properties...]   - runs the registered checks one after the other, prints one line each
tier=$1; seed=$2; shift 2
props="$@"; [ -z "$props" ] && props="C01 C02 C03 C04 C05 C06 C07 C08 C09 C10 C11 C12 C13 C14 C15 C16 C17 C18 C19 C20"
for p in $props; do
  VERIF_SEED=$seed ./check $p $tier > sweep_$p.log 2>&1; rc=$?
  echo "seed=$seed $tier $p exit=$rc $(grep -a '^verifctl: C' sweep_$p.log | tail -1 | cut -c1-220)"
  [ $rc -ne 0 ] && grep -a "^  C\|WATCHDOG\|trouble\|VIOLATION" sweep_$p.log | head -6 | cut -c1-600
  grep -a "^KNOWN-FINDING" sweep_$p.log | head -2 | cut -c1-160
done
