#!/bin/bash
# usage: tools/evalbenign.sh <dir with patch.diff notes.md> <id> [properties, default all]
# A change under which every property still holds (written by an independent sub-agent that saw the
# property texts only). Confirms that it applies, builds (with and without the tag) and passes the
# existing suite, then runs the quick checks against /repo with the change applied: every check must exit 0.
set -u
SRC=$1; ID=$2; shift 2; PROPS="$@"
[ -z "$PROPS" ] && PROPS="C01 C02 C03 C04 C05 C06 C07 C08 C09 C10 C11 C12 C13 C14 C15 C16 C17 C18 C19 C20"
export GOFLAGS=-mod=mod GOPROXY=off GOSUMDB=off
OUT=/verif/seeded/$ID
mkdir -p $OUT
cp $SRC/patch.diff $OUT/patch.diff
cp $SRC/notes.md $OUT/notes.md 2>/dev/null
WT=/tmp/wt/eval-$ID
git -C /repo worktree remove --force $WT >/dev/null 2>&1
git -C /repo worktree add -q --detach $WT HEAD || exit 2
cd $WT
res_apply=ok; git apply $OUT/patch.diff || res_apply=FAILED
suite=ok; (go build ./... && go build -tags verif ./... && go test -vet=off -count=1 ./... ) > $OUT/suite_with_change.log 2>&1 || suite=FAILED
cd /; git -C /repo worktree remove --force $WT
echo "apply=$res_apply suite_with_change=$suite"
results=""
if [ "$res_apply" = ok ] && [ "$suite" = ok ]; then
  git -C /repo apply $OUT/patch.diff || { echo "cannot apply to /repo"; exit 2; }
  for p in $PROPS; do
    (cd ${VERIF_HOME:-/verif} && VERIF_BUDGET_S=${BN_BUDGET_S:-${MUT_BUDGET_S:-10}} ./check $p quick > $OUT/check_$p.log 2>&1); rc=$?
    v=$(grep -c '^VIOLATION' $OUT/check_$p.log)
    first=$(grep -m1 '^  C' $OUT/check_$p.log | cut -c1-260)
    [ $rc -ne 0 ] && echo "check $p: exit=$rc violations=$v $first" && tail -3 $OUT/check_$p.log | cut -c1-300
    [ $rc -eq 0 ] && rm -f $OUT/check_$p.log
    results="$results{\"property\":\"$p\",\"exit\":$rc,\"violation_lines\":$v},"
  done
  git -C /repo checkout -- .
  git -C /repo clean -fdq   # a change may add files
  git -C /repo status --short
fi
for p in $PROPS; do
  for f in $(grep '^VIOLATION' $OUT/check_$p.log 2>/dev/null | sed 's/.*replay=//'); do
    [ -f "$f" ] && { [ -f $OUT/replay_$p.json ] || cp $f $OUT/replay_$p.json; rm -f $f; }
  done
done
python3 - <<PY
import json
def merge(new):
    # results of properties not run this time are kept from the previous evaluation
    try: old=json.load(open("$OUT/meta.json")).get("checks_run",[])
    except Exception: old=[]
    done={c["property"] for c in new}
    return [c for c in old if c["property"] not in done]+new
import os
json.dump({"id":"$ID","kind":"benign: every property still holds with this change","source":"written by an independent sub-agent that saw only the property texts",
 "notes":open("$OUT/notes.md").read() if os.path.exists("$OUT/notes.md") else "",
 "confirmed":{"applies":"$res_apply","builds_and_existing_suite_with_change":"$suite"},
 "checks_run":merge([${results%,}])},open("$OUT/meta.json","w"),indent=1)
PY
echo "--- $ID done"
