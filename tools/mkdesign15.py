#!/usr/bin/env python3
"""Rewrites the generated tables of DESIGN.md §15 (between the seeded-table markers)."""
import subprocess,re
t=subprocess.run(['python3','/verif/tools/seeded_table.py'],capture_output=True,text=True).stdout
p='/verif/DESIGN.md'
s=open(p).read()
a='<!-- seeded-table-begin -->'; b='<!-- seeded-table-end -->'
i=s.index(a)+len(a); j=s.index(b)
s=s[:i]+'\n'+t+'\n'+s[j:]
open(p,'w').write(s)
