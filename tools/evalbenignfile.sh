#!/bin/bash
# usage: tools/evalbenignfile.sh <file with lines "<dir> <id> [props...]">
export VERIF_HOME=$(pwd)
while read -r d id props; do
  [ -z "$d" ] && continue
  [ -f $d/patch.diff ] || { echo "missing $d"; continue; }
  echo "=== $id"
  /verif/tools/evalbenign.sh $d $id $props </dev/null
done < "$1"
