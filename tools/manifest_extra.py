extra={
 "C09":{"text_suffix":" B2 is exhaustive for its sequences; B1 is sampling.",
        "note":"Trusted: strace's fault injection, the kernel's rename semantics on tmpfs, Go runtime. Not modelled: power loss (no fsync semantics), errors surfacing only at close(2).",
        "technique":"deterministic simulation with fault injection: seeded interleaving of store operations with crash copies and torn temp files (B1) plus exhaustive SIGKILL/ENOSPC injection at every syscall of a real helper process under strace (B2)"},
}
