extra={
 "C20":{"note":"Trusted: the kernel, /proc, /bin/sh and sleep of the sandbox. Not deterministic simulation: real time and real scheduling; the seed fixes the scenario only. Known finding F10 (open) is reported as KNOWN-FINDING.",
        "technique":"seeded generation of process-tree scenarios executed for real (the simulator cannot control the kernel); /proc oracle; repeat-3 confirmation"},
 "C17":{"note":"Trusted: testing/synctest, the harness' own YAML writer (reflection over yaml tags) and validity predicate. File modification times are set from the simulated clock by the harness. Goroutines inside the app package are not interleaved by the simulator (only the moment a reload is installed is decided). SIGUSR1-triggered reloads are not exercised. Part (b) is plain input generation."},
 "C18":{"note":"Trusted: /bin/sh, od, tr, printf of the sandbox; the kernel schedules the children, so a replay reproduces the scenario, not the exact timing. Process-level environment is set by the harness in its own process.",
        "technique":"deterministic simulation with fault injection (seeded scheduler at hook points) around real child processes; oracle over the captured output"},
 "C19":{"note":"Trusted: coreutils of the sandbox; replay reproduces the scenario, not kernel timing. Output that is not valid UTF-8 is not generated: the JSON log API cannot carry it.",
        "technique":"deterministic simulation with fault injection (seeded scheduler at hook points) around real child processes; oracle over the captured output"},
 "C13":{"note":"Trusted: the Go race detector (happens-before based; bounded per-location access history, so a report for a given schedule is reproducible in most but not all fresh processes - non-reproducible reports are dropped and counted), testing/synctest. WaitGroup Add/Wait annotations of the detector are counted separately, not reported. No API-level oracle runs in this configuration.",
        "technique":"deterministic simulation with fault injection: seeded cooperative scheduler with simulator hand-offs hidden from the Go race detector (runtime.RaceDisable), lock-holder overlap through parked callbacks, race reports as replayable oracle"},
 "C09":{"text_suffix":" B2 is exhaustive for its sequences; B1 is sampling.",
        "note":"Trusted: strace's fault injection, the kernel's rename semantics on tmpfs, Go runtime. Not modelled: power loss (no fsync semantics), errors surfacing only at close(2).",
        "technique":"deterministic simulation with fault injection: seeded interleaving of store operations with crash copies and torn temp files (B1) plus exhaustive SIGKILL/ENOSPC injection at every syscall of a real helper process under strace (B2)"},
}
