extra={
 "C13":{"note":"Trusted: the Go race detector (happens-before based; bounded per-location access history, so a report for a given schedule is reproducible in most but not all fresh processes - non-reproducible reports are dropped and counted), testing/synctest. WaitGroup Add/Wait annotations of the detector are counted separately, not reported. No API-level oracle runs in this configuration.",
        "technique":"deterministic simulation with fault injection: seeded cooperative scheduler with simulator hand-offs hidden from the Go race detector (runtime.RaceDisable), lock-holder overlap through parked callbacks, race reports as replayable oracle"},
 "C09":{"text_suffix":" B2 is exhaustive for its sequences; B1 is sampling.",
        "note":"Trusted: strace's fault injection, the kernel's rename semantics on tmpfs, Go runtime. Not modelled: power loss (no fsync semantics), errors surfacing only at close(2).",
        "technique":"deterministic simulation with fault injection: seeded interleaving of store operations with crash copies and torn temp files (B1) plus exhaustive SIGKILL/ENOSPC injection at every syscall of a real helper process under strace (B2)"},
}
