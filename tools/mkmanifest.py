#!/usr/bin/env python3
"""Regenerates /verif/MANIFEST.json from the table below (run from /verif)."""
import json, subprocess
props=[json.loads(l) for l in open('properties.jsonl')]
TECH_A="deterministic simulation with fault injection: seeded cooperative scheduler over hook points in a synctest bubble, stub task runner, step-wise oracles, ddmin-minimised replay tapes"
NOTE_A="Trusted: Go runtime and testing/synctest (fake clock, quiescence), the stub task runner (conformance-tested against taskctl.TaskRunner), the oracle's reading of the property statement. The scheduler's launch pass is one atomic step (DESIGN §2.3)."
SAMPLING=" Sampling, not proof: a clean batch is evidence that grows with the number of distinct traces explored."
claimed={
"C01":("A","exploration","Seeded deterministic simulation of the real PipelineRunner + taskctl scheduler under a cooperative scheduler that decides every interleaving; the running count is checked at every job start and every task execution event against the API-reported job span; a second execution of a job is detected from the stub runner's events."),
"C02":("A","exploration","Same simulator; per-job stub history checked for at-most-once execution, dependencies finished first, cyclic/unbuildable graphs never executing and acyclic graphs completing in the drain phase."),
"C03":("A","exploration","Same simulator with fake clock; bounded liveness: after faults stop the drain phase must leave no accepted job waiting, and in settled states an eligible head with a free slot must have started."),
"C04":("A","exploration","Same simulator; the scheduler-loop hook lets the search place a cancel in every gap between tasks; each acknowledged cancel is followed to the final report."),
"C05":("A","exploration","Same simulator; every schedule step is compared with the admission table of the statement evaluated on the API-visible state before the step; rejected requests must leave the state digest unchanged."),
"C06":("A","exploration","Same simulator; at every job start no earlier-accepted job of the pipeline may still be waiting (definition unchanged)."),
"C07":("A","exploration","Same simulator on the fake clock: start - accept >= delay at every start; settled-state eligibility; replace bursts converge to the newest job."),
"C08":("A","exploration","Same simulator with forced and seeded task failures; failure propagation and final verdict (ReadJob and /job/detail JSON) checked against the stub history."),
"C09":("B","fault_enumeration","B1: the real JsonDataStore on real files with savers and loaders parked between every file operation, seeded interleavings, crash copies with torn temp files and injected write errors; after every step and crash a fresh Load must return exactly the snapshot most recently renamed into place. B2: the real process under strace with SIGKILL injected at every syscall of fixed save sequences and ENOSPC at every write, a loader process judging what is left behind - exhaustive over syscall boundaries for those sequences, and independent of the hook points."),
"C10":("A","exploration","Same simulator with the persist loop live on the real JsonDataStore; crash-and-restart is a scheduling choice at every step (also inside a save); after each restart every job must be terminal, the job set must equal the persisted one, and every finished job must be reported field for field (flags, times, tasks, variables with float bit patterns, user, last error) as the dead world reported it."),
"C11":("A","exploration","Same simulator; Shutdown (graceful/forced, deadlines on the fake clock) begun in any state with concurrent clients; at the step Shutdown returns: no unfinished job, no executing task, last successfully saved snapshot equals the reported state; graceful lets running jobs finish, forced cancels them; persist liveness evaluated after three persist pauses in settled states."),
"C12":("A","exploration","Same simulator with the real FileOutputStore; at every SaveToStore step the removed set is checked against retention_count / retention_period / definition removal, the snapshot handed to the store against the API view of the same instant, and the log directory listing before/after."),
"C13":("A","exploration","Race-detector build of the same simulator in which the simulator's own hand-offs are hidden from the detector, so that two conflicting accesses that are not ordered by prunner's own synchronisation are reported even though the schedule is fully serialised; readers are parked inside IterateJobs/ReadJob callbacks and saves inside log removal so that lock holders overlap; every exported operation is issued concurrently with jobs, timers and the persist loop. Oracle: race report / fatal error / panic involving prunner code, minimised and re-verified in a fresh process."),
"C14":("A","exploration","HTTP clients against the real chi router + jwtauth middleware + handlers (no sockets) while jobs run in the same simulator: routes are discovered by walking the router, credentials drawn from 13 classes over 3 transports with profiling on/off; exp/nbf claims sit at seeded distances from the fake now and the clock is advanced across them between requests. Every answer is judged against nbf <= now < exp; a rejected request must leave the runner's state digest and the stub untouched and reveal nothing. Honest scope: the route x credential table is enumeration reached by sampling (cells reached are listed in the evidence); the simulator contributes the clock and the live runner."),
"C15":("A","exploration","Same simulator; list-then-schedule probes executed atomically by the driver in settled states; visibility, ordering and timestamp invariants on every step."),
"C16":("A","exploration","Same simulator with seeded definition mutations; what the stub is asked to run is compared with the definition installed when the job was accepted; reload steps must not change any job."),
"C17":("R","exploration","(a) The real reload loop of the binary (app.handleDefinitionChanges, watch mode, ticker on the fake clock) next to an editor that rewrites real YAML files: single-field edits chosen by reflection over PipelineDef/TaskDef, written atomically or torn with polls in between, and invalid edits; after each completed edit and more than one poll interval the installed definitions must equal what the files say; they must be valid at every step; invalid files must leave the installed definitions unchanged. (b) Equals on reflection-generated single-field differences and the load result of valid file sets are exercised by direct input generation; this part is not simulation and is counted separately."),
"C18":("C","exploration","The real TaskRunner, PgidExecutor, interpreter and child processes inside the bubble, job/stage interleaving decided by the tape: each command reports the environment it sees (through built-ins and through an executed /bin/sh) and renders typed job variables; compared with the precedence task > pipeline > process and with the variables of its own job. Scenario-replayable only."),
"C19":("C","exploration","Same engine: tasks write known payloads (empty .. 4 MiB, partial lines, multi-byte text around chunk sizes, interleaved streams) from several jobs and tasks at once through the real FileOutputStore; the log store and GET /job/logs must return exactly those bytes per job, task and stream. Scenario-replayable only."),
"C20":("P","exploration","Real clock, real kernel: seeded process trees (background jobs, pipes, nested shells, SIGINT-ignoring and stdio-detached members) started by the real runner, canceled at seeded instants or ended by a forced shutdown; /proc is searched for marked processes once the job is reported finished. Weakest check of the set: executions are not controlled by the simulator, a violation is reported only if three executions of the scenario all show it. One open known finding (F10)."),
}
extra={}
try:
    exec(open('tools/manifest_extra.py').read())
except FileNotFoundError:
    pass
checks=[]
for c in sorted(claimed):
    eng,level,text=claimed[c][:3]
    e=extra.get(c,{})
    checks.append({"property_id":c,"quick_cmd":f"./check {c} quick","thorough_cmd":f"./check {c} thorough","evidence_file":f"evidence/{c}.json",
      "replay_cmd_template":"bin/verifctl replay {path}","engine":eng,
      "level_claimed":{"category":level,"text":text+e.get("text_suffix",SAMPLING),"design_ref":"DESIGN.md §5 "+c},
      "level_note":e.get("note",NOTE_A),
      "technique":e.get("technique",TECH_A)})
na_reason=extra.get("_na",{})
na=[{"property_id":p["id"],"reason":na_reason.get(p["id"],"check under construction in this session (see DESIGN.md §5); not claimed until its machinery is committed")} for p in props if p["id"] not in claimed]
log=subprocess.check_output(['git','-C','/repo','log','--format=%h %s']).decode().splitlines()
hooks=[l.split()[0] for l in log if 'simulation hook' in l or l.split(' ',1)[1].startswith('verif:')]
fixes=[l.split()[0] for l in log if l.split(' ',1)[1].startswith('fix:')]
engines=[{"name":"A","path":"sim/","serves_properties":[c for c in sorted(claimed) if claimed[c][0]=="A"],"kind_free_text":"whole-runner deterministic simulation: real PipelineRunner, taskctl scheduler, JsonDataStore, FileOutputStore, HTTP handler inside one testing/synctest bubble under a seeded cooperative scheduler; stub task runner; fault injection (task failures, store/log-store errors, id generation failure, stalls, clock jumps, crash-restart, reloads); minimising replay"}]
engines.append({"name":"B","path":"sim/store_engine.go, cmd/verifctl/b2.go, cmd/storehelper","serves_properties":["C09"],"kind_free_text":"B1: in-bubble seeded interleaving of savers/loaders/crash points over the real JsonDataStore; B2: real helper process under strace fault injection (SIGKILL at every syscall, ENOSPC at every write)"})
engines.append({"name":"R","path":"sim/reload_engine.go","serves_properties":["C17"],"kind_free_text":"real reload loop + real YAML files + fake clock; reflection-driven editor"})
engines.append({"name":"C","path":"sim/real_engine.go","serves_properties":["C18","C19"],"kind_free_text":"engine A's scheduler around the real task runner and real child processes (in-bubble); scenario-replayable"})
engines.append({"name":"P","path":"sim/proc_engine.go","serves_properties":["C20"],"kind_free_text":"real-clock runs of seeded process-tree scenarios (no simulated time, no controlled interleaving)"})
engines+=extra.get("_engines",[])
man={"version":1,"setup_cmd":"./setup.sh",
 "hooks":{"guard":"verif","enable":"go1.26.8 test -tags verif (harness module /verif/go.mod replaces github.com/Flowpack/prunner with /repo)","baseline_off_cmd":"cd /repo && GOFLAGS=-mod=mod GOPROXY=off GOSUMDB=off go test -vet=off -count=1 ./...","source_commits":hooks,"add_only":True},
 "engines":engines,
 "checks":checks,"not_applicable":na,
 "notes":"Fix commits in /repo: "+" ".join(reversed(fixes))+" (see known_findings.json). Exit codes: 0 held, 1 VIOLATION, 2 harness/build trouble."}
json.dump(man,open('MANIFEST.json','w'),indent=1)
print("claimed",len(checks),"not claimed",len(na))
