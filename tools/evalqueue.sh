#!/bin/bash
# usage: tools/evalqueue.sh mut:<specfile> benign:<specfile> ...   (run in order)
for a in "$@"; do
  kind=${a%%:*}; f=${a#*:}
  case $kind in
    mut) tools/evalbatchfile.sh $f ;;
    mutskip) SKIP_CONFIRM=1 tools/evalbatchfile.sh $f ;;
    benign) tools/evalbenignfile.sh $f ;;
  esac
done
