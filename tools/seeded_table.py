#!/usr/bin/env python3
"""Prints the markdown tables of seeded changes (DESIGN §15) from /verif/seeded/*/meta.json and the check logs.
/verif/seeded/judgements.json holds the hand-written remarks for changes that no check reports."""
import json,glob,os,re
J={}
try: J=json.load(open('/verif/seeded/judgements.json'))
except Exception: pass
rows=[];ben=[]
for d in sorted(glob.glob('/verif/seeded/*/')):
    id=os.path.basename(d.rstrip('/'))
    try: m=json.load(open(d+'meta.json'))
    except Exception: continue
    notes=m.get('needs_to_manifest','') or m.get('notes','')
    title=''
    for l in notes.splitlines():
        l=l.strip().lstrip('#').strip()
        if l: title=l; break
    title=re.sub(r'\s+',' ',title)[:150].replace('|','/')
    conf=m.get('confirmed',{})
    if str(m.get('kind','')).startswith('benign'):
        ok=conf.get('applies')=='ok' and conf.get('builds_and_existing_suite_with_change')=='ok'
        bad=[f"{c['property']}: exit {c['exit']}" for c in m.get('checks_run',[]) if c['exit']!=0]
        n=len(m.get('checks_run',[]))
        ben.append((id,title,'yes' if ok else 'NO',f"{n-len(bad)} of {n} checks exit 0"+(': '+'; '.join(bad) if bad else ''),J.get(id,'')))
        continue
    ok=conf.get('applies')=='ok' and conf.get('existing_suite_with_change')=='ok'
    demo=f"{conf.get('demo_with_change','?')}/{conf.get('demo_without_change','?')}"
    res=[]
    for c in m.get('checks_run',[]):
        p=c['property']; rule=''
        log=d+f'check_{p}.log'
        if os.path.exists(log):
            mm=re.search(r'^  (C\d+/\w+) ',open(log,errors='replace').read(),re.M)
            if mm: rule=mm.group(1)
        res.append(f"{p}: {'**caught** ('+rule+')' if c['exit']==1 else ('missed' if c['exit']==0 else 'exit '+str(c['exit']))}")
    rows.append((id,title,'yes' if ok else 'NO',demo,'; '.join(res),J.get(id,'')))
print('| seeded change | what it is (from the author\'s notes) | compiles + suite passes | demo with/without | quick checks run with the change applied | remark |')
print('|---|---|---|---|---|---|')
for r in rows: print('| '+' | '.join(r)+' |')
caught=sum(1 for r in rows if '**caught**' in r[4]); print(f'\n{caught} of {len(rows)} seeded changes are caught by at least one quick check.')
if ben:
    print('\n| change that keeps every property | what it is | compiles + suite passes | quick checks with the change applied | remark |')
    print('|---|---|---|---|---|')
    for r in ben: print('| '+' | '.join(r)+' |')
